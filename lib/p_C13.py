"""C13 — OCCA's preprocessor agrees with the C preprocessor on the supported subset
(Hypothesis-generated translation units, `gcc -E -P -undef -nostdinc` as oracle)."""
import os
import re
import subprocess

from hypothesis import strategies as st

import v_cexpr as cx
import v_hyp
from meta import m
from props import REGISTRY
from v_hyp import Counter

PROP = "C13"

# ---------------------------------------------------------------------------------------------------
# neutral pp-token lexer (applied to both outputs)
# ---------------------------------------------------------------------------------------------------
PUNCT = ["%:%:", "...", "<<=", ">>=", "->*", "<=>", "->", "++", "--", "<<", ">>", "<=", ">=", "==", "!=", "&&", "||",
         "*=", "/=", "%=", "+=", "-=", "&=", "^=", "|=", "##", "::", ".*", "<:", ":>", "<%", "%>", "%:"]
TOKEN_RE = re.compile(
    r"""(?P<ws>\s+)
      |(?P<str>(?:u8|u|U|L)?"(?:[^"\\\n]|\\.)*")
      |(?P<chr>(?:u8|u|U|L)?'(?:[^'\\\n]|\\.)*')
      |(?P<num>\.?[0-9](?:[eEpP][+-]|[0-9A-Za-z_.])*)
      |(?P<id>[A-Za-z_][A-Za-z0-9_]*)
      |(?P<punct>%s)
      |(?P<other>.)""" % "|".join(re.escape(p) for p in PUNCT), re.X | re.S)


def pp_tokens(text):
    return [mo.group(0) for mo in TOKEN_RE.finditer(text) if mo.lastgroup != "ws"]


def by_marker(tokens):
    """[(marker or '', [tokens])] — the token sequence cut at the line markers mk<N>"""
    out = [["", []]]
    for t in tokens:
        if re.fullmatch(r"mk\d+", t):
            out.append([t, []])
        else:
            out[-1][1].append(t)
    return out


# ---------------------------------------------------------------------------------------------------
# known-finding classes
# ---------------------------------------------------------------------------------------------------
# expression-level slugs shared with C14 (same root cause in occa::primitive), plus C13-only ones:
#   if-cxx-typed-arith   #if value differs between intmax_t arithmetic and C++-typed (int/unsigned/long) arithmetic
#   invocation-split-lines   function-like macro invocation spread over several lines
#   defined-no-parens    `defined X` without parentheses
#   va-args-commas       __VA_ARGS__ standing for two or more arguments
#   recursive-macro-in-arg / ... discovered classes are listed in KNOWN_FINDINGS.txt
import p_C14  # noqa: E402  (node_slugs: operator x operand-type classes)

OBJ = ["A", "B", "C", "D"]
FN = {"f0": 0, "f1": 1, "f2": 2, "f3": 3}
VN = {"v0": 0, "v1": 1}
AL = {"al1": "f1", "al2": "f2"}
VAL = ["N0", "N1", "N2"]
VFN = {"SQ": 1, "MX": 2, "SEL": 3}
PLAIN = ["q", "v", "w", "zz", "1", "2", "42", "+", "-", "*", ";", "=", "<", "0x1F", "3u"]
PARAMS = ["x", "y", "z"]
# (no identifier is called u, U, L, R or u8: OCCA's tokenizer takes `u "x"` for a prefixed string literal even with
#  white space in between -- a tokenizer matter, reported to the C12 harness, not part of this property)
STRINGS = ['"A q"', '"f1(1)"', "'A'"]

PP_BOUNDARY = [0, 1, 2, 3, 5, 7, 8, 16, 31, 32, 63, 64, 255, 256, 65535, 65536, (1 << 31) - 1, 1 << 31, (1 << 31) + 1,
               (1 << 32) - 1, 1 << 32, (1 << 32) + 1, (1 << 63) - 1, 1 << 63, (1 << 64) - 1]
PP_SUFFIX_SPELL = {"": [""], "u": ["u", "U"], "l": ["l", "L", "ll", "LL"], "ul": ["ul", "UL", "lu", "ull", "ULL", "uL"]}
PP_UB = [
    ["bin", "/", ["lit", "1", "dec", 1, ""], ["lit", "0", "dec", 0, ""]],
    ["bin", "%", ["lit", "7", "dec", 7, ""], ["lit", "0", "dec", 0, ""]],
    ["bin", "/", ["lit", "5", "dec", 5, ""], ["par", ["bin", "-", ["lit", "2", "dec", 2, ""], ["lit", "2", "dec", 2, ""]]]],
    ["bin", "/", ["lit", "1u", "dec", 1, "u"], ["lit", "0u", "dec", 0, "u"]],
    ["bin", "%", ["lit", "1l", "dec", 1, "l"], ["lit", "0", "dec", 0, ""]],
    ["bin", "/", ["lit", "0", "dec", 0, ""], ["lit", "0", "dec", 0, ""]],
]
BIN_OPS = ["*", "/", "%", "+", "-", "<<", ">>", "<", "<=", ">", ">=", "==", "!=", "&", "^", "|", "&&", "||"]


def vfn_body(name, args):
    """instantiated body tree of the fixed function-like value macros (arguments parenthesised in the body)"""
    p = [["par", a] for a in args]
    if name == "SQ":
        return ["par", ["bin", "*", p[0], p[0]]]
    if name == "MX":
        return ["par", ["tern", ["bin", ">", p[0], p[1]], p[0], p[1]]]
    return ["par", ["tern", p[0], p[1], p[2]]]


VFN_DEF = {"SQ": "#define SQ(x) ( ( x ) * ( x ) )",
           "MX": "#define MX(x,y) ( ( x ) > ( y ) ? ( x ) : ( y ) )",
           "SEL": "#define SEL(x,y,z) ( ( x ) ? ( y ) : ( z ) )"}


ORDER = ["A", "B", "C", "D", "f0", "f1", "f2", "f3", "v0", "v1", "al1", "al2"]


class Gen:
    def __init__(self, draw, known):
        self.draw, self.known = draw, known
        self.lines = []
        self.state = {}          # name -> definition record (only updated in active regions)
        self.cls = set()
        self.marker = 0
        # recursion x macro-argument interaction is a known-finding class: with it listed a unit either has
        # recursive macros and only plain tokens inside invocation arguments ("rec"), or free arguments and an
        # acyclic macro graph ("acyclic": a body only mentions names that come earlier in ORDER)
        self.mode = "free"
        if "recursive-macro-in-arg" in known:
            self.mode = "rec" if draw(st.integers(0, 2)) == 0 else "acyclic"
        self.owner = None        # name of the macro whose body is being generated
        self.in_arg = 0

    # ---- small helpers --------------------------------------------------------------------------
    def i(self, lo, hi):
        return self.draw(st.integers(lo, hi))

    def pick(self, seq):
        return self.draw(st.sampled_from(seq))

    def pick_name(self, names):
        """a macro name out of `names`, preferring (3 of 4) names that are defined at this point"""
        live = [n for n in names if self.state.get(n)]
        if live and self.i(0, 3):
            return self.pick(live)
        return self.pick(names)

    def is_known(self, slug):
        if slug in self.known:
            Counter.hit(slug)
            return True
        return False

    # ---- #if expressions ------------------------------------------------------------------------
    def pp_literal(self):
        kind = self.pick(["dec", "dec", "dec", "hex", "hex", "oct"])
        suf = self.pick(["", "", "", "u", "l", "ul"])
        how = self.i(0, 9)
        if how <= 5:
            value = self.i(0, 12)
        elif how <= 8:
            value = self.pick(PP_BOUNDARY)
        else:
            value = self.i(0, (1 << 64) - 1)
        if kind == "oct" and value == 0:
            kind = "dec"
        if kind == "dec" and "u" not in suf and value > (1 << 63) - 1:
            suf = "ul"           # a decimal literal above INTMAX_MAX is only accepted with a warning: keep it unsigned
        spell = self.pick(PP_SUFFIX_SPELL[suf])
        body = str(value) if kind == "dec" else ("0x%X" % value) if kind == "hex" else "0%o" % value
        return ["lit", body + spell, kind, value, suf]

    def leaf(self, closed):
        w = self.i(0, 9)
        if closed or w <= 4:
            return self.pp_literal()
        if w <= 6:
            name = self.pick(OBJ + list(FN) + VAL + ["zz", "q"] + list(VFN))
            style = self.i(0, 2)
            if style == 0 and self.is_known("defined-no-parens"):
                style = 1
            self.cls.add("if:defined")
            return ["def", name, style, self.state.get(name) is not None]
        if w == 7:
            return ["id0", self.pick(["zz", "q", "w"])]
        if w == 8:
            name = self.pick(VAL)
            d = self.state.get(name)
            self.cls.add("if:value-macro")
            return ["mac", name, d["tree"]] if d else ["id0", name]
        name = self.pick(list(VFN))
        if self.state.get(name) is None:
            return self.pp_literal()
        args = [self.cond(1, False) for _ in range(VFN[name])]
        self.cls.add("if:fn-value-macro")
        return ["call", name, args, vfn_body(name, args)]

    def ok(self, n):
        """pp-defined, and not in a known-finding class -> True"""
        try:
            u, v = cx.pp_eval(n)
        except cx.Undefined:
            return False
        ct = cx.to_cxx_tree(n)
        for sub in cx.walk(ct):
            for s in p_C14.node_slugs(sub):
                if s in self.known:
                    Counter.hit(s)
                    return False
        if "if-cxx-typed-arith" in self.known:
            try:
                t, cv = cx.cxx_eval(ct)
                same = cx.truth(cv) == (v != 0)
            except cx.Undefined:
                same = False
            if not same:
                Counter.hit("if-cxx-typed-arith")
                return False
        return True

    def wrap(self, pk, op, child, side, extra):
        if extra or cx.needs_par(pk, op, child, side):
            return ["par", child]
        return child

    def cond(self, depth, closed):
        """evaluated-position expression: pp-defined and free of known classes"""
        if depth <= 0 or self.i(0, 9) < 3:
            n = self.leaf(closed)
            return n if self.ok(n) else ["lit", "1", "dec", 1, ""]
        w = self.i(0, 19)
        extra = self.i(0, 4) == 0
        if w <= 2:
            op = self.pick(["!", "-", "~", "+", "!"])
            a = self.cond(depth - 1, closed)
            n = ["un", op, self.wrap("un", op, a, "a", extra)]
            return n if self.ok(n) else a
        if w <= 13:
            op = self.pick(BIN_OPS)
            a = self.cond(depth - 1, closed)
            b = self.cond(depth - 1, closed)
            for cand in (op, "<"):
                n = ["bin", cand, self.wrap("bin", cand, a, "l", extra), self.wrap("bin", cand, b, "r", extra)]
                if self.ok(n):
                    return n
            return a
        if w <= 15:
            c = self.cond(depth - 1, closed)
            a = self.cond(depth - 1, closed)
            b = self.cond(depth - 1, closed)
            n = ["tern", self.wrap("tern", "", c, "c", extra), self.wrap("tern", "", a, "a", False),
                 self.wrap("tern", "", b, "b", extra)]
            return n if self.ok(n) else a
        # guarded undefined operand
        ub = ["par", self.pick(PP_UB)]
        g = self.cond(depth - 1, closed)
        gv = cx.pp_eval(g)[1]
        gp = ["par", g]
        if self.i(0, 1) == 0:
            n = ["bin", "&&", gp, ub] if not gv else ["bin", "||", gp, ub]
        else:
            x = ["par", self.cond(depth - 2, closed)]
            n = ["tern", gp, x, ub] if gv else ["tern", gp, ub, x]
        if self.ok(n):
            self.cls.add("if:guarded-division")
            return n
        return g

    def junk(self, depth):
        """unevaluated-position expression: syntactically valid, value may be undefined"""
        if depth <= 0 or self.i(0, 3) == 0:
            if self.i(0, 2) == 0:
                return ["par", self.pick(PP_UB)]
            return self.pp_literal()
        op = self.pick(BIN_OPS)
        a, b = self.junk(depth - 1), self.junk(depth - 1)
        return ["bin", op, self.wrap("bin", op, a, "l", False), self.wrap("bin", op, b, "r", False)]

    # ---- macro bodies and text lines -----------------------------------------------------------
    def mention(self, name):
        """may `name` (a general macro) be written here?  (see self.mode)"""
        if self.mode == "rec" and self.in_arg:
            Counter.hit("recursive-macro-in-arg")
            return False
        if self.mode == "acyclic" and self.owner is not None and ORDER.index(name) >= ORDER.index(self.owner):
            Counter.hit("recursive-macro-in-arg")
            return False
        if self.mode == "rec" and self.owner is not None and "macro-cycle-through-invocation" in self.known:
            # a macro cycle that passes through a function-like invocation is a known-finding class of its own:
            # recursion stays among object-like macros, function-like bodies follow the acyclic order
            if self.owner in OBJ and name not in OBJ:
                Counter.hit("macro-cycle-through-invocation")
                return False
            if self.owner not in OBJ and ORDER.index(name) >= ORDER.index(self.owner):
                Counter.hit("macro-cycle-through-invocation")
                return False
        return True

    def element(self, depth, params, variadic, in_text, active):
        """-> list of token strings without a top-level comma"""
        w = self.i(0, 13)
        if w <= 2:
            return [self.pick(PLAIN)]
        if w <= 4:
            name = self.pick_name(OBJ)
            if not self.mention(name):
                return [self.pick(PLAIN)]
            if active and in_text and self.state.get(name):
                self.cls.add("use:object-macro")
            return [name]
        if w == 5 and params:
            return [self.pick(params)]
        if w == 6 and depth > 0:
            inner = self.elements(depth - 1, params, variadic, in_text, active, allow_comma=True)
            return ["("] + inner + [")"]
        if w == 7 and variadic:
            return ["(", "__VA_ARGS__", ")"]
        if w == 8:
            return [self.pick(STRINGS)]
        if w == 9 and in_text and not self.in_arg:
            # bare function-like macro name, never directly followed by '('
            return [self.pick(list(FN) + list(VN)), ";"]
        if w == 10 and in_text and depth > 0 and not (self.mode == "rec" and self.in_arg):
            al = self.pick_name(list(AL))
            toks = [al] + self.call_args(FN[AL[al]], False, depth, params, variadic, in_text, active)
            if active and self.state.get(al):
                self.cls.add("use:object-macro-naming-function-macro")
            return toks
        if depth > 0:
            return self.invocation(depth, params, variadic, in_text, active)
        return [self.pick(PLAIN)]

    def elements(self, depth, params, variadic, in_text, active, allow_comma=False, lo=1, hi=3):
        out = []
        for k in range(self.i(lo, hi)):
            if k and allow_comma and self.i(0, 2) == 0:
                out.append(",")
            out += self.element(depth, params, variadic, in_text, active)
        return out

    def call_args(self, nargs, is_variadic, depth, params, variadic, in_text, active):
        """'(' args ')' with exactly the arity of the macro (variadic: 1-3 extra arguments, all non-empty)"""
        toks = ["("]
        total = nargs
        if is_variadic:
            extra = self.i(1, 3)
            if extra >= 2 and self.is_known("va-args-commas"):
                extra = 1
            if extra >= 2 and active and in_text:
                self.cls.add("use:va-args-2+")
            total = nargs + extra
        nested = False
        self.in_arg += 1
        for k in range(total):
            if k:
                toks.append(",")
            arg = self.elements(depth - 1, params, variadic, in_text, active, lo=1, hi=2)
            if any(self.state.get(t) for t in arg):
                nested = True
            toks += arg
        self.in_arg -= 1
        toks.append(")")
        self.last_nested = nested
        return toks

    def invocation(self, depth, params, variadic, in_text, active):
        name = self.pick_name(list(FN) + list(VN))
        if not self.mention(name):
            return [self.pick(PLAIN)]
        isv = name in VN
        nargs = VN[name] if isv else FN[name]
        toks = self.call_args(nargs, isv, depth, params, variadic, in_text, active)
        if active and in_text and self.state.get(name):
            self.cls.add("use:function-macro")
            if self.last_nested:
                self.cls.add("use:function-macro-nested-arg")
            if isv:
                self.cls.add("use:variadic-macro")
        return [name] + toks

    fnames = set(list(FN) + list(VN) + list(AL))

    def join(self, toks, allow_split):
        """token list -> text; a function-like name and its '(' are written adjacent, separated by a blank or (class
        invocation-split-lines) by a newline; a newline may also follow a comma"""
        out = []
        for k, t in enumerate(toks):
            if k:
                call_paren = t == "(" and toks[k - 1] in self.fnames
                if call_paren and self.i(0, 1) == 0:
                    pass
                elif allow_split and call_paren and self.i(0, 11) == 0 and not self.is_known("invocation-split-lines"):
                    out.append("\n")
                    self.cls.add("use:invocation-split-lines")
                elif allow_split and toks[k - 1] == "," and self.i(0, 11) == 0:
                    out.append("\n")
                    self.cls.add("use:newline-after-comma")
                else:
                    out.append(" ")
            out.append(t)
        return "".join(out)

    def text_line(self, active):
        self.marker += 1
        toks = self.elements(2, [], False, True, active, lo=1, hi=4)
        if not active and self.i(0, 7) == 0:
            toks += [self.pick(["f1", "f2", "v1"]), "(", "1", ","]
            self.cls.add("skipped:unterminated-invocation")
        self.lines.append("mk%d %s" % (self.marker, self.join(toks, active)))

    def define(self, active):
        kind = self.i(0, 9)
        if kind <= 2:
            name = self.pick(OBJ)
            self.owner = name
            body = self.elements(2, [], False, False, active, lo=0, hi=3) if self.i(0, 9) else []
            selfref = self.i(0, 5)
            if selfref <= 1 and (self.mode != "acyclic" or not self.is_known("recursive-macro-in-arg")):
                body = [name] + body if selfref == 0 else body + [name]        # self-reference, first or last token
                self.cls.add("def:self-referential")
            body = self.solid(body)
            self.lines.append("#define %s %s" % (name, self.join(body, False)))
            rec = {"kind": "obj"}
        elif kind <= 5:
            name = self.pick(list(FN))
            self.owner = name
            params = PARAMS[:FN[name]]
            body = self.elements(2, params, False, False, active, lo=0, hi=4)
            if self.i(0, 6) == 0 and (self.mode != "acyclic" or not self.is_known("recursive-macro-in-arg")):
                call = [name, "("]
                for k, p_ in enumerate(params):
                    call += ([","] if k else []) + [p_]
                body = call + [")"] + body
                self.cls.add("def:self-referential")
            body = self.solid(body)
            self.lines.append("#define %s(%s) %s" % (name, ",".join(params) if self.i(0, 1) else ", ".join(params),
                                                     self.join(body, False)))
            rec = {"kind": "fn"}
        elif kind == 6:
            name = self.pick(list(VN))
            self.owner = name
            params = PARAMS[:VN[name]]
            body = self.elements(2, params, True, False, active, lo=1, hi=4)
            body = self.solid(body)
            self.lines.append("#define %s(%s) %s" % (name, ", ".join(params + ["..."]), self.join(body, False)))
            rec = {"kind": "fn"}
        elif kind == 7:
            name = self.pick(list(AL))
            self.lines.append("#define %s %s" % (name, AL[name]))
            rec = {"kind": "obj"}
        elif kind == 8:
            name = self.pick(VAL)
            tree = ["par", self.cond(2, True)]
            self.lines.append("#define %s %s" % (name, cx.text(tree)))
            rec = {"kind": "val", "tree": tree}
        else:
            name = self.pick(list(VFN))
            self.lines.append(VFN_DEF[name])
            rec = {"kind": "vfn"}
        self.owner = None
        if active:
            if self.state.get(name):
                self.cls.add("def:redefinition")
            self.state[name] = rec

    def solid(self, body):
        """A body without any plain token can expand to nothing, and a macro *argument* that expands to nothing is a
        known-finding class (arg-expands-to-nothing): with it listed every body gets at least one plain token."""
        if any(t in PLAIN or t in STRINGS or t in ("(", ")") for t in body):
            return body
        if self.is_known("arg-expands-to-nothing"):
            return body + [self.pick(PLAIN)]
        self.cls.add("def:body-may-expand-to-nothing")
        return body

    def undef(self, active):
        name = self.pick(OBJ + list(FN) + list(VN) + VAL + list(VFN) + list(AL) + ["zz"])
        self.lines.append("#undef %s" % name)
        if active:
            if self.state.get(name):
                self.cls.add("undef:defined-macro")
            self.state[name] = None

    def condition_line(self, directive, evaluated):
        if evaluated:
            n = self.cond(3, False)
            v = cx.pp_eval(n)[1] != 0
        else:
            n = self.junk(2) if self.i(0, 1) else self.cond(2, False)
            v = False
        self.lines.append("#%s %s" % (directive, cx.text(n)))
        return v

    def conditional(self, depth, active):
        form = self.i(0, 3)
        taken = False
        if form <= 1:
            taken = self.condition_line("if", active)
        else:
            name = self.pick_name(OBJ + list(FN) + VAL + ["zz"] + list(VFN))
            isdef = self.state.get(name) is not None
            self.lines.append("#%s %s" % ("ifdef" if form == 2 else "ifndef", name))
            taken = isdef if form == 2 else not isdef
            self.cls.add("if:ifdef")
        taken = taken and active
        self.block(depth + 1, active and taken, 1, 3)
        done = taken
        for _ in range(self.i(0, 2)):
            evaluated = active and not done
            if active and done:
                self.cls.add("if:elif-after-taken")
            self.cls.add("if:elif")
            v = self.condition_line("elif", evaluated)
            t = evaluated and v
            self.block(depth + 1, active and t, 1, 3)
            done = done or t
        if self.i(0, 1):
            self.lines.append("#else")
            self.block(depth + 1, active and not done, 1, 3)
        self.lines.append("#endif")
        if depth >= 1:
            self.cls.add("if:nested")

    def block(self, depth, active, lo, hi):
        for _ in range(self.i(lo, hi)):
            w = self.i(0, 19)
            if w <= 8:
                self.text_line(active)
            elif w <= 13:
                self.define(active)
            elif w == 14:
                self.undef(active)
            elif depth < 4:
                self.conditional(depth, active)
            else:
                self.text_line(active)


@st.composite
def unit(draw, known):
    g = Gen(draw, known)
    g.block(0, True, 2, 6)
    return {"src": "\n".join(g.lines) + "\n", "cls": sorted(g.cls)}


NT_CLASSES = {"use:function-macro-nested-arg", "if:elif", "if:defined", "if:guarded-division"}


# ---------------------------------------------------------------------------------------------------
# oracle
# ---------------------------------------------------------------------------------------------------
ALL_NAMES = OBJ + list(FN) + list(VN) + list(AL) + VAL + list(VFN)
GCC = ["gcc", "-E", "-P", "-undef", "-nostdinc", "-x", "c"]


def gcc_E(wd, tag, src):
    path = os.path.join(wd, "u_%s.c" % tag)
    with open(path, "w") as f:
        f.write(src)
    r = subprocess.run(GCC + [path], stdout=subprocess.PIPE, stderr=subprocess.PIPE, text=True, errors="replace")
    return r.returncode, r.stdout, r.stderr


def gcc_E_many(wd, tag, srcs):
    """-> [(rc, stdout, stderr)] per unit.  Several units are preprocessed by ONE gcc run: each unit is embedded
    verbatim, preceded by a separator identifier and followed by #undef of every macro name the generator can
    define (fixed pool), which resets the preprocessor state.  If gcc complains about anything in the combined
    file every unit is run on its own, and a single unit is always run on its own (replay, shrinking,
    confirmation of a violation)."""
    if len(srcs) == 1:
        return [gcc_E(wd, tag, srcs[0])]
    parts = []
    for k, src in enumerate(srcs):
        parts.append("UNITSEP_%d_\n%s%s\n" % (k, src, "".join("#undef %s\n" % n for n in ALL_NAMES)))
    parts.append("UNITSEP_END_\n")
    rc, out, err = gcc_E(wd, tag + "_all", "".join(parts))
    chunks = re.split(r"UNITSEP_(\d+|END)_", out)
    ok = rc == 0 and "error:" not in err and len(chunks) == 2 * len(srcs) + 3 and chunks[0].strip() == ""
    if ok:
        for k in range(len(srcs)):
            if chunks[2 * k + 1] != str(k):
                ok = False
    if ok:
        return [(0, chunks[2 * k + 2], "") for k in range(len(srcs))]
    return [gcc_E(wd, tag, src) for src in srcs]


class C13(v_hyp.Spec):
    batch = 100

    def strategy(self, known_ids):
        return unit(frozenset(known_ids))

    def text(self, item):
        return item["src"]

    def classify(self, item):
        cls = list(item.get("cls", []))
        return cls, bool(NT_CLASSES & set(cls))

    def reduce(self, item, fails):
        """line-based delta debugging (whole lines only, so every remaining line is still in the grammar)"""
        lines = item["src"].split("\n")
        if lines and lines[-1] == "":
            lines.pop()
        mk = lambda ls: {"src": "\n".join(ls) + "\n", "cls": item.get("cls", [])}
        lines = v_hyp.ddmin(lines, lambda ls: fails(mk(ls)), budget=150)
        # (no token-level pass: it would leave the grammar -- empty arguments, unbalanced parentheses)
        return mk(lines)

    def evaluate(self, ctx, items, shrinking=False):
        w = ctx["worker"]
        out = []
        cases = []
        for it in items:
            ctx["n"] += 1
            cases.append(("u%d" % ctx["n"], it["src"]))
        answers = w.batch("preprocess", cases)
        refs = gcc_E_many(ctx["wd"], ctx["tag"], [it["src"] for it in items])
        for it, o, (rc, gout, gerr) in zip(items, answers, refs):
            if rc != 0 or "error:" in gerr:
                out.append({"status": "inconclusive", "what": "gcc -E rejects the unit: " + gerr.strip()[-300:]})
                continue
            if o.get("kind") == "skipped":
                out.append({"status": "inconclusive", "what": o["crash"]})
                continue
            if "crash" in o:
                out.append({"status": "fail", "kind": o["kind"], "what": "worker %s in preprocess: %s" % (o["kind"], o["crash"])})
                continue
            exc = v_hyp.unhex(o["exc_hex"])
            if exc:
                out.append({"status": "fail", "kind": "exception",
                            "what": "exception escaped the preprocessor: " + v_hyp.exc_summary(exc)})
                continue
            if o["errors"] or o["tok_errors"]:
                out.append({"status": "fail", "kind": "errors",
                            "what": "OCCA reports %d preprocessor / %d tokenizer error(s) on a unit gcc -E accepts" %
                                    (o["errors"], o["tok_errors"])})
                continue
            a = pp_tokens(v_hyp.unhex(o["out_hex"]))
            b = pp_tokens(gout)
            if a != b:
                sa, sb = by_marker(a), by_marker(b)
                what = "token sequences differ"
                for k in range(max(len(sa), len(sb))):
                    x = sa[k] if k < len(sa) else ["<end>", []]
                    y = sb[k] if k < len(sb) else ["<end>", []]
                    if x != y:
                        what = "first difference at line marker occa=%s cpp=%s: OCCA `%s` vs cpp `%s`" % (
                            x[0] or "<start>", y[0] or "<start>", " ".join(x[1])[:160], " ".join(y[1])[:160])
                        break
                out.append({"status": "fail", "kind": "tokens", "what": what})
                continue
            out.append({"status": "ok", "what": ""})
        return out


RULE = ("item = one translation unit (2 to ~60 lines): #define of object-like, function-like (0-3 parameters) and variadic macros "
        "(fixed arity per name; bodies of parameters, other macros, nested invocations, parentheses, no # / ##), "
        "self-referential bodies, object-like macros naming a function-like one, #undef, redefinition, invocations with "
        "non-empty (nested, parenthesised, comma-containing) arguments, and #if/#ifdef/#ifndef/#elif/#else/#endif nested "
        "<= 4 deep over integer constant expressions (literals up to 2^64-1 with u/l suffixes, defined X / defined(X), "
        "value macros, all C operators, guarded divisions by zero, #elif after a taken group, arbitrary/undefined "
        "expressions in skipped positions). Conditions in evaluated positions are built with an intmax_t/uintmax_t "
        "evaluator so that their C value is defined. Every ordinary line starts with a unique marker mk<N>. Oracle: "
        "gcc -E -P -undef -nostdinc on the same text; both outputs re-lexed into pp-tokens and compared; OCCA errors = 0, "
        "no exception, no crash. gcc rejecting a unit => inconclusive (counted). Non-trivial = a function-like expansion "
        "with a macro inside an argument, or a conditional with #elif / defined / a guarded division. "
        "Distinct = distinct unit text.")

SPEC = C13()


def run(prop, tier, replay, t0):
    return v_hyp.run(SPEC, prop, tier, replay, t0, quick=2400, thorough=96000, level="exploration", rule=RULE,
                     assumptions=["the system gcc 12 preprocessor in C mode is the reference",
                                  "operands of # and ## and empty macro arguments are outside the statement and never generated",
                                  "leak detection is off in the worker (not part of the property)"])


REGISTRY[PROP] = run

m(PROP, "exploration",
  "Differential property-based test: Hypothesis generates translation units from a macro/conditional grammar (with its own "
  "intmax_t evaluator so that evaluated #if expressions are defined and undefined ones sit only in skipped positions); the "
  "token sequence and kept lines produced by OCCA's preprocessor (in-process worker under ASan/UBSan) are compared with "
  "gcc -E -P. Search with shrinking, not proof; classes behind listed known findings are excluded by construction and counted.",
  "Trusted: gcc's preprocessor, the neutral pp-token lexer (30 lines), Hypothesis, sanitizer runtime. The generator's own "
  "evaluator only steers generation; gcc is the oracle of record.",
  "property-based differential testing (Hypothesis grammar-based program generation, system C preprocessor as oracle)",
  "hypothesis", "DESIGN.md §4 C13")
