"""C20 — translated kernels compute what the OKL kernel means, on every backend (translation validation).
The generator builds a small AST of a valid OKL kernel and emits two texts from it: the OKL source and its *sequential
reading* (plain C++: @outer/@inner -> loops, @shared -> array per outer iteration, @exclusive -> array indexed by the inner
index, @atomic -> plain update, barriers -> nothing)."""
import re

import v_okl
from meta import m
from props import REGISTRY

CN = 7          # size of the atomic counter array


class G:
    """generation context for one kernel"""

    def __init__(self, rnd):
        self.r = rnd
        self.feat = set()


def iexpr(g, atoms, depth=2):
    """integer expression over atoms, small values, no overflow, no division by zero"""
    r = g.r
    if depth == 0 or r.random() < 0.3:
        return r.choice(atoms + [str(r.randint(0, 4))])
    op = r.choice(["+", "-", "*", "+", "-", "&", "|", "^", "%", "?", "min"])
    a, b = iexpr(g, atoms, depth - 1), iexpr(g, atoms, depth - 1)
    if op == "%":
        return "((%s) %% %d)" % (a, r.randint(2, 5))
    if op == "*":
        return "((%s) * %d)" % (a, r.randint(0, 3)) if r.random() < 0.7 else "((%s) * -%d)" % (a, r.randint(1, 2))
    if op == "?":
        return "((%s) > (%s) ? (%s) : (%s))" % (a, b, a, b)
    if op == "min":
        return "helper((%s) %% 5, (%s) %% 3)" % (a, b)
    if op in ("&", "|", "^"):
        return "(((%s) & 15) %s ((%s) & 7))" % (a, op, b)
    return "(%s %s %s)" % (a, op, b)


def program(rnd, atomic_p=0.45):
    g = G(rnd)
    r = rnd
    d = {}
    d["NI0"] = r.choice([2, 3, 4, 4, 5, 8])
    d["NI1"] = r.choice([1, 1, 1, 2, 3])                 # second inner dimension (1 = absent)
    d["NO0"] = r.choice([1, 2, 3, 4])
    d["NO1"] = r.choice([1, 1, 1, 2, 3])                 # nested outer (1 = absent)
    d["n_off"] = r.choice([0, 0, -1, -2, 1])             # n = total + n_off: guards `if (g < n)` matter when negative
    d["shared"] = r.random() < 0.6
    d["shared2d"] = d["shared"] and d["NI1"] > 1 and r.random() < 0.5
    d["excl"] = r.random() < 0.55
    d["exclf"] = r.random() < 0.25
    d["atomic"] = r.random() < atomic_p
    d["dim"] = r.random() < 0.25
    d["restrict"] = r.random() < 0.4
    d["maxinner"] = r.random() < 0.2
    d["simd"] = r.random() < 0.1
    d["repeat"] = r.random() < 0.2                       # serial loop around the phases inside the outer body
    d["sibling"] = r.choice([None, None, "tile", "plain", "plain2"])
    d["c"] = r.randint(-3, 5)
    nph = r.choice([2, 3, 3, 4, 4]) if d["shared"] else r.choice([1, 2, 2, 3, 3, 4])
    NI = d["NI0"] * d["NI1"]
    phases = []
    wrote_s = False
    for p in range(nph):
        ph = {"stm": []}
        atoms = ["g", "li", "c", "a[g % n]", "a[(g + %d) %% n]" % r.randint(1, 5), "o0", "i0"]
        if d["NI1"] > 1:
            atoms.append("i1")
        if d["NO1"] > 1:
            atoms.append("o1")
        reads_s = False
        if d["excl"] and p > 0:
            atoms.append("e")
        # once @shared holds values a phase is either a *reader* (reads other work-items' cells, never writes @shared) or a
        # *writer* (may overwrite @shared, never reads it): write -> read -> write sequences (write-after-read hazards) occur
        if d["shared"] and wrote_s and r.random() < 0.65:
            k = r.randint(1, NI - 1) if NI > 1 else 0
            atoms.append("S[(li + %d) %% %d]" % (k, NI))
            atoms.append("S[%d - 1 - li]" % NI)
            reads_s = True
        nst = r.randint(1, 4)
        kinds = []
        for _ in range(nst):
            ch = r.random()
            if ch < 0.22:
                kinds.append("local")
            elif ch < 0.40 and d["excl"]:
                kinds.append("excl")
            elif ch < 0.58 and d["shared"]:
                kinds.append("shared")
            elif ch < 0.70:
                kinds.append("loop")
            elif ch < 0.80 and d["atomic"]:
                kinds.append("atomic")
            elif ch < 0.86 and d["exclf"]:
                kinds.append("exclf")
            else:
                kinds.append("out")
        if p == nph - 1 and "out" not in kinds:
            kinds.append("out")
        # a phase must not both read other threads' shared values and overwrite shared (no barrier inside a phase)
        if reads_s:
            kinds = [k for k in kinds if k != "shared"] or ["out"]
            if "out" not in kinds and "atomic" not in kinds and "excl" not in kinds:
                kinds.append("out")          # a reader uses what it read
        elif d["shared"] and wrote_s and "shared" not in kinds:
            kinds.append("shared")           # a writer phase after a reader: the write-after-read pattern
        locs = []
        for kd in kinds:
            at = atoms + locs
            if kd == "local":
                nm = "t%d_%d" % (p, len(locs))
                ph["stm"].append(("local", nm, iexpr(g, at)))
                locs.append(nm)
            elif kd == "excl":
                ph["stm"].append(("excl", iexpr(g, at)))
            elif kd == "exclf":
                ph["stm"].append(("exclf", "fa[g %% n] * 2.0f + 1.0f * ((%s) %% 8)" % iexpr(g, at, 1)))
            elif kd == "shared":
                ph["stm"].append(("shared", iexpr(g, at)))
                wrote_s = True
            elif kd == "loop":
                nm = "q%d_%d" % (p, len(ph["stm"]))
                acc = "u%d_%d" % (p, len(ph["stm"]))
                ph["stm"].append(("loop", nm, acc, r.randint(2, 4), iexpr(g, at + [nm], 1), r.choice(["for", "while"]),
                                  r.randint(2, 4), r.randint(5, 40)))
                locs.append(acc)
            elif kd == "atomic":
                ph["stm"].append(("atomic", r.choice(["+=", "-=", "+="]), "(%s) %% %d" % (r.choice(["g", "li", "o0 + i0"]), CN),
                                  "((%s) & 7)" % iexpr(g, at, 1), r.random() < 0.7))
            else:
                ph["stm"].append(("out", r.choice(["set", "set", "acc", "else"]), iexpr(g, at), iexpr(g, at, 1),
                                  r.choice(["b", "b", "fb"])))
        ph["nobarrier"] = (not d["shared"]) and r.random() < 0.3
        phases.append(ph)
    d["phases"] = phases
    return d


# ---- emitters ---------------------------------------------------------------------------------------
def _subst(e, d, ref):
    """expression text -> OKL or reference text"""
    NI = d["NI0"] * d["NI1"]
    if ref:
        e = re.sub(r"\be\b", "E[li]", e)
        e = re.sub(r"\bef\b", "EF[li]", e)
    if d["shared2d"]:
        # S[x] -> S2[(x) / NI0][(x) % NI0]
        def rep(mm):
            x = mm.group(1)
            return "S2[(%s) / %d][(%s) %% %d]" % (x, d["NI0"], x, d["NI0"])
        e = re.sub(r"S\[([^\]]*)\]", rep, e)
    return e


def _out_access(d, arr, ref):
    NI = d["NI0"] * d["NI1"]
    if d["dim"] and arr == "b":
        return ("b[(li) + (%d) * (blk)]" % NI) if ref else "b(li, blk)"
    return "%s[g]" % arr


def _phase_body(d, ph, ref, ind):
    NI = d["NI0"] * d["NI1"]
    L = []
    pad = "  " * ind
    L.append(pad + "const int li = i1 * %d + i0;" % d["NI0"] if d["NI1"] > 1 else pad + "const int li = i0;")
    L.append(pad + ("const int blk = o1 * %d + o0;" % d["NO0"] if d["NO1"] > 1 else "const int blk = o0;"))
    L.append(pad + "const int g = blk * %d + li;" % NI)
    for s in ph["stm"]:
        kd = s[0]
        if kd == "local":
            L.append(pad + "const int %s = %s;" % (s[1], _subst(s[2], d, ref)))
        elif kd == "excl":
            L.append(pad + "%s = %s;" % ("E[li]" if ref else "e", _subst(s[1], d, ref)))
        elif kd == "exclf":
            L.append(pad + "%s = %s;" % ("EF[li]" if ref else "ef", _subst(s[1], d, ref)))
        elif kd == "shared":
            L.append(pad + "%s = %s;" % (_subst("S[li]", d, ref), _subst(s[1], d, ref)))
        elif kd == "loop":
            _, q, acc, cnt, ex, style, skip, brk = s
            L.append(pad + "int %s = 0;" % acc)
            if style == "for":
                L.append(pad + "for (int %s = 0; %s < %d + (li %% 2); ++%s) {" % (q, q, cnt, q))
                L.append(pad + "  if ((%s + g) %% %d == 0) continue;" % (q, skip))
                L.append(pad + "  %s += %s;" % (acc, _subst(ex, d, ref)))
                L.append(pad + "  if (%s > %d) break;" % (acc, brk))
                L.append(pad + "}")
            else:
                L.append(pad + "int %s = 0;" % q)
                L.append(pad + "while (%s < %d) {" % (q, cnt))
                L.append(pad + "  ++%s;" % q)
                L.append(pad + "  if ((%s + li) %% %d == 1) { continue; }" % (q, skip))
                L.append(pad + "  %s += %s;" % (acc, _subst(ex, d, ref)))
                L.append(pad + "  if (%s < -%d) { break; }" % (acc, brk))
                L.append(pad + "}")
        elif kd == "atomic":
            _, op, idx, val, guarded = s
            at, v = ("" if ref else "@atomic "), _subst(val, d, ref)
            if op == "=+":        # general statement: OpenMP wraps it into a critical section (C21 only: GPU back ends reject it)
                st = ["%scnt[%s] = cnt[%s] + %s;" % (at, idx, idx, v)]
            elif op == "{=+}":    # one-statement block
                st = [at + "{", "  cnt[%s] = (cnt[%s] - %s);" % (idx, idx, v), "}"]
            elif op == "{2}":     # two-statement block
                st = [at + "{", "  cnt[%s] += %s;" % (idx, v), "  cnt[((%s) + 1) %% %d] = cnt[((%s) + 1) %% %d] - 1;" % (idx, CN, idx, CN), "}"]
            else:
                st = ["%scnt[%s] %s %s;" % (at, idx, op, v)]
            if guarded:
                L.append(pad + "if (g < n) {")
                L += [pad + "  " + x for x in st]
                L.append(pad + "}")
            else:
                L += [pad + x for x in st]
        elif kd == "out":
            _, mode, ex, ex2, arr = s
            acc = _out_access(d, arr, ref)
            ex_t, ex2_t = _subst(ex, d, ref), _subst(ex2, d, ref)
            if arr == "fb":
                ex_t = "1.0f * ((%s) %% 64) + fa[g %% n]" % ex_t
                ex2_t = "1.0f * ((%s) %% 16)" % ex2_t
            L.append(pad + "if (g < n) {")
            if mode == "set":
                L.append(pad + "  %s = %s;" % (acc, ex_t))
            elif mode == "acc":
                L.append(pad + "  %s = %s + %s;" % (acc, acc, ex2_t))
            else:
                L.append(pad + "  if ((%s) %% 2 == 0) {" % _subst(ex2, d, ref))
                L.append(pad + "    %s = %s;" % (acc, ex_t))
                L.append(pad + "  } else {")
                L.append(pad + "    %s = %s;" % (acc, ex2_t))
                L.append(pad + "  }")
            L.append(pad + "}")
    return L


def _emit(d, name, ref):
    NI = d["NI0"] * d["NI1"]
    L = []
    if not ref:
        L.append("int h_%s(int x, int y) { return x * 2 - y + (x > y ? 1 : 0); }" % name)
    else:
        L.append("static int ref_helper_%s(int x, int y) { return x * 2 - y + (x > y ? 1 : 0); }\n#define helper ref_helper_%s" % (name, name))
    rs = " @restrict" if (d["restrict"] and not ref) else ""
    bdecl = "int *b"
    if d["dim"] and not ref:
        bdecl = "int *b @dim(%d, %d)" % (NI, d["NO0"] * d["NO1"])
    args = "const int n, const int c, const int *a%s, const float *fa%s, %s, float *fb, int *cnt" % (rs, rs, bdecl)
    L.append(("static void ref_%s(%s) {" if ref else "@kernel void %s(%s) {") % (name, args))
    ind = 1
    if d["NO1"] > 1:
        L.append("  for (int o1 = 0; o1 < %d; ++o1%s) {" % (d["NO1"], "" if ref else "; @outer"))
        ind += 1
    pre = ""
    if not ref and d["maxinner"]:
        pre += "@max_inner_dims(%d%s) " % (d["NI0"], (", %d" % d["NI1"]) if d["NI1"] > 1 else "")
    if not ref and d["simd"]:
        pre += "@simd_length(8) "
    if pre:
        L.append("  " * ind + pre.strip())
    L.append("  " * ind + "for (int o0 = 0; o0 < %d; ++o0%s) {" % (d["NO0"], "" if ref else "; @outer"))
    ind += 1
    pad = "  " * ind
    if d["shared"]:
        if d["shared2d"]:
            L.append(pad + ("int S2[%d][%d];" if ref else "@shared int S2[%d][%d];") % (d["NI1"], d["NI0"]))
        else:
            L.append(pad + ("int S[%d];" if ref else "@shared int S[%d];") % NI)
    if d["excl"]:
        L.append(pad + ("int E[%d];" % NI if ref else "@exclusive int e;"))
    if d["exclf"]:
        L.append(pad + ("float EF[%d];" % NI if ref else "@exclusive float ef;"))
    if ref and d["excl"]:
        L.append(pad + "for (int z = 0; z < %d; ++z) E[z] = 0;" % NI)
    if ref and d["exclf"]:
        L.append(pad + "for (int z = 0; z < %d; ++z) EF[z] = 0;" % NI)
    if d["repeat"]:
        L.append(pad + "for (int rep = 0; rep < 2; ++rep) {")
        ind += 1
        pad = "  " * ind
    for pi, ph in enumerate(d["phases"]):
        extra = ""
        if not ref:
            extra = "; @inner" + (" @nobarrier" if ph["nobarrier"] else "")
        k = ind
        if d["NI1"] > 1:
            L.append("  " * k + "for (int i1 = 0; i1 < %d; ++i1%s) {" % (d["NI1"], "" if ref else "; @inner"))
            k += 1
        L.append("  " * k + "for (int i0 = 0; i0 < %d; ++i0%s) {" % (d["NI0"], extra))
        if not d["NI1"] > 1:
            L.append("  " * (k + 1) + "const int i1 = 0;")
        if not d["NO1"] > 1:
            L.append("  " * (k + 1) + "const int o1 = 0;")
        # exclusive variables must be initialised before they are read: the first phase always writes them
        if pi == 0:
            if d["excl"]:
                L.append("  " * (k + 1) + ("E[i1 * %d + i0] = 0;" % d["NI0"] if ref else "e = 0;"))
            if d["exclf"]:
                L.append("  " * (k + 1) + ("EF[i1 * %d + i0] = 0;" % d["NI0"] if ref else "ef = 0;"))
        L += _phase_body(d, ph, ref, k + 1)
        L.append("  " * k + "}")
        if d["NI1"] > 1:
            L.append("  " * (k - 1) + "}")
    if d["repeat"]:
        ind -= 1
        L.append("  " * ind + "}")
    ind -= 1
    L.append("  " * ind + "}")
    if d["NO1"] > 1:
        L.append("  }")
    # sibling outer nest(s): fb2 region = second half of fb (offset n)
    sib = d["sibling"]
    if sib == "tile":
        L.append("  for (int w = 0; w < n; ++w%s) {" % ("" if ref else "; @tile(%d, @outer, @inner)" % d["NI0"]))
        L.append("    fb[n + w] = fa[w] * 2.0f + (float) c;")
        L.append("  }")
    elif sib in ("plain", "plain2"):
        L.append("  for (int p0 = 0; p0 < %d; ++p0%s) {" % (d["NO0"] + 1, "" if ref else "; @outer"))
        L.append("    for (int j0 = 0; j0 < %d; ++j0%s) {" % (d["NI0"], "" if ref else "; @inner"))
        L.append("      const int w = p0 * %d + j0;" % d["NI0"])
        L.append("      if (w < n) {")
        L.append("        fb[n + w] = fa[w] + 1.0f * (helper(w % 5, c & 3) % 32);")
        L.append("      }")
        L.append("    }")
        if sib == "plain2":
            # same header as the first loop: iteration j0 is the same work-item in both (only @shared may cross work-items)
            L.append("    for (int j0 = 0; j0 < %d; ++j0%s) {" % (d["NI0"], "" if ref else "; @inner"))
            L.append("      const int w = p0 * %d + j0;" % d["NI0"])
            L.append("      if (w < n) {")
            L.append("        fb[n + w] = fb[n + w] * 2.0f;")
            L.append("      }")
            L.append("    }")
        L.append("  }")
    L.append("}")
    if ref:
        L.append("#undef helper")
        return "\n".join(L) + "\n"
    return re.sub(r"\bhelper\(", "h_%s(" % name, "\n".join(L) + "\n")


def render(d, name):
    NI = d["NI0"] * d["NI1"]
    total = NI * d["NO0"] * d["NO1"]
    n = max(1, total + d["n_off"])
    okl = _emit(d, name, False)
    ref = _emit(d, name, True)
    params = [("const int", "n", False), ("const int", "c", False), ("const int", "a", True), ("const float", "fa", True),
              ("int", "b", True), ("float", "fb", True), ("int", "cnt", True)]
    # b has `total` cells (g < n <= total+1 is guarded; n may exceed total by one: guard makes g < n, g <= total-1 always)
    NB = max(n, total)
    setup = """    const long N_a = %(n)d, N_b = %(NB)d, N_fb = %(NFB)d, N_cnt = %(CN)d;
    rt::Guarded gA = rt::galloc(N_a * 4, 4), gFA = rt::galloc(N_a * 4, 4);
    rt::Guarded gRb = rt::galloc(N_b * 4, 4), gTb = rt::galloc(N_b * 4, 4), gRfb = rt::galloc(N_fb * 4, 4), gTfb = rt::galloc(N_fb * 4, 4);
    rt::Guarded gRc = rt::galloc(N_cnt * 4, 4), gTc = rt::galloc(N_cnt * 4, 4);
    int *R_a = (int*) gA.data, *T_a = R_a; float *R_fa = (float*) gFA.data, *T_fa = R_fa;
    int *R_b = (int*) gRb.data, *T_b = (int*) gTb.data; float *R_fb = (float*) gRfb.data, *T_fb = (float*) gTfb.data;
    int *R_cnt = (int*) gRc.data, *T_cnt = (int*) gTc.data;
    for (long q = 0; q < N_a; ++q) { R_a[q] = (int) ((q * 7 + 3) %% 11) - 5; R_fa[q] = (float) ((q * 5 + 1) %% 9) - 4.0f; }
    for (long q = 0; q < N_b; ++q) { R_b[q] = T_b[q] = (int) (q %% 5) - 2; }
    for (long q = 0; q < N_fb; ++q) { R_fb[q] = T_fb[q] = 0.5f * (float) (q %% 4); }
    for (long q = 0; q < N_cnt; ++q) { R_cnt[q] = T_cnt[q] = (int) q; }
    RT_MM(a) RT_MM(fa) RT_MM(b) RT_MM(fb) RT_MM(cnt)
""" % {"n": n, "NB": NB, "NFB": 2 * max(n, total) + NI + 8, "CN": CN}
    compare = """    for (long q = 0; q < N_b && err.empty(); ++q) if (R_b[q] != T_b[q]) err = "b[" + std::to_string(q) + "] = " + std::to_string(T_b[q]) + " but the sequential reading gives " + std::to_string(R_b[q]);
    for (long q = 0; q < N_fb && err.empty(); ++q) if (memcmp(&R_fb[q], &T_fb[q], 4)) err = "fb[" + std::to_string(q) + "] = " + std::to_string(T_fb[q]) + " but the sequential reading gives " + std::to_string(R_fb[q]);
    for (long q = 0; q < N_cnt && err.empty(); ++q) if (R_cnt[q] != T_cnt[q]) err = "cnt[" + std::to_string(q) + "] = " + std::to_string(T_cnt[q]) + " but the sequential reading gives " + std::to_string(R_cnt[q]);
    if (err.empty() && !(rt::canaryOk(gA) && rt::canaryOk(gFA) && rt::canaryOk(gTb) && rt::canaryOk(gTfb) && rt::canaryOk(gTc))) err = "write outside an argument array";
"""
    teardown = "    rt::gfree(gA); rt::gfree(gFA); rt::gfree(gRb); rt::gfree(gTb); rt::gfree(gRfb); rt::gfree(gTfb); rt::gfree(gRc); rt::gfree(gTc);\n"
    calls = [[str(n), str(d["c"]), "@a", "@fa", "@b", "@fb", "@cnt"]]
    return v_okl.Kernel(name, params, okl, ref, calls, setup=setup, compare=compare, teardown=teardown, meta=d)


def features(d):
    f = set()
    if d["shared"] and sum(1 for ph in d["phases"] for s in ph["stm"] if s[0] == "shared"):
        f.add("shared+barrier")
    if d["excl"] or d["exclf"]:
        f.add("exclusive")
    if d["atomic"] and any(s[0] == "atomic" for ph in d["phases"] for s in ph["stm"]):
        f.add("atomic")
    if len(d["phases"]) > 1:
        f.add("sibling-inner-loops")
    if d["NO1"] > 1:
        f.add("nested-outer")
    if d["NI1"] > 1:
        f.add("nested-inner")
    if d["sibling"] == "tile":
        f.add("tile")
    if d["sibling"] in ("plain", "plain2"):
        f.add("sibling-outer")
    if d["dim"]:
        f.add("dim")
    if d["repeat"]:
        f.add("inner-loops-inside-serial-loop")
    return f


def nontrivial(d):
    return len(features(d)) >= 2


def simplify(d):
    outs = []
    for key in ("sibling",):
        if d[key]:
            outs.append(dict(d, **{key: None}))
    for key in ("repeat", "dim", "restrict", "maxinner", "simd", "exclf", "shared2d"):
        if d[key]:
            outs.append(dict(d, **{key: False}))
    if d["NO1"] > 1:
        outs.append(dict(d, NO1=1))
    if d["NO0"] > 1:
        outs.append(dict(d, NO0=1))
    if d["n_off"]:
        outs.append(dict(d, n_off=0))
    ph = d["phases"]
    if len(ph) > 1:
        for i in range(len(ph)):
            outs.append(dict(d, phases=ph[:i] + ph[i + 1:]))
    for i, p in enumerate(ph):
        if len(p["stm"]) > 1:
            for j in range(len(p["stm"])):
                q = dict(p, stm=p["stm"][:j] + p["stm"][j + 1:])
                outs.append(dict(d, phases=ph[:i] + [q] + ph[i + 1:]))
    return outs


def valid(d):
    """keep the kernel well-formed after simplification: something is written, locals/shared are defined before use"""
    okl = _emit(d, "v", False)
    names = set(re.findall(r"\b([tuq]\d+_\d+)\b", okl))
    for nm in names:
        first_use = okl.find(nm)
        decl = re.search(r"(const int|int) %s\b" % nm, okl)
        if not decl or decl.start() > first_use:
            return False
    if "S[" in okl or "S2[" in okl:
        # a shared read must be preceded (in an earlier phase) by a shared write
        wrote = False
        for ph in d["phases"]:
            reads = any(("S[" in str(x)) for s in ph["stm"] for x in s[1:])
            if reads and not wrote:
                return False
            if any(s[0] == "shared" for s in ph["stm"]):
                wrote = True
    if not any(s[0] in ("out", "atomic") for ph in d["phases"] for s in ph["stm"]):
        return False
    return True


ATOMIC_MARK = {"openmp": "#pragma omp atomic", "cuda": "atomic", "hip": "atomic", "opencl": "atom", "metal": "atomic", "dpcpp": "atomic_ref"}


class C20Spec(v_okl.Spec):
    quick, thorough = (6, 16), (300, 16)
    program = staticmethod(program)
    render = staticmethod(render)
    nontrivial = staticmethod(nontrivial)
    simplify = staticmethod(simplify)
    valid = staticmethod(valid)
    sanitize_bounds = True
    rule = ("case = OKL kernel generated from an AST: 1-2 nested @outer loops, 1-2 nested @inner loops, 1-4 sibling inner-loop 'phases' per "
            "outer body (optionally inside a serial loop), optional sibling outer nests (plain or @tile), scalar and pointer arguments, "
            "@restrict, helper function, local declarations, if/else, serial for/while loops with break/continue, @shared arrays (1-D/2-D) "
            "written in one phase and read at permuted indices in a later one, @exclusive scalars carried across phases, @atomic updates of a "
            "small counter array, @dim output access, @max_inner_dims, @simd_length, @nobarrier (only without @shared).  Oracle = the "
            "sequential reading emitted from the same AST (@exclusive -> array by inner index, @shared -> array per outer iteration, @atomic -> "
            "plain update), compiled by g++: all 7 translations must write identical output arrays (ints exactly, floats bitwise; float data "
            "are small integers so every operation is exact); argument arrays sit between PROT_NONE guard pages with canaries and the "
            "test TUs are built with -fsanitize=bounds, so out-of-range accesses to argument, @shared and @exclusive arrays are caught; for "
            "every @atomic statement the translation must contain the back end's atomic primitive.  Non-trivial = kernel using >= 2 of "
            "{shared+barrier, exclusive, atomic, sibling inner loops, nested outer, nested inner, tile, sibling outer, dim, inner loops inside "
            "a serial loop}.")
    assume = ["outer iterations write disjoint outputs; inner iterations communicate only through @shared across phases (by construction)",
              "GPU threads of a block are emulated as fibres that run one after the other between barriers: a lost update of a non-atomic "
              "read-modify-write cannot show up by execution, therefore @atomic is additionally checked structurally (atomic primitive present)",
              "emu/ shims (trusted base); g++ as reference semantics"]

    def classes(self, d):
        return sorted(features(d)) + ["phases:%d" % len(d["phases"])]

    def static_check(self, k, mode, res):
        """structural oracle for @atomic: returns failure text or None"""
        n_at = k.okl.count("@atomic")
        if not n_at or mode == "serial":
            return None
        mark = ATOMIC_MARK[mode]
        have = res["device"].count(mark)
        if mode == "openmp":
            have += res["device"].count("#pragma omp critical")   # general @atomic statements become critical sections
        if have < n_at:
            return ("the kernel has %d @atomic statement(s) but the %s translation contains %d atomic primitive(s) ('%s'): "
                    "concurrent work-items lose updates" % (n_at, mode, have, mark))
        return None

    def known_filter(self, k, mode, txt, known_ids):
        if "atomic-ignored-opencl-metal" in known_ids and mode in ("opencl", "metal") and "atomic primitive" in txt:
            return "atomic-ignored-opencl-metal"
        return None


REGISTRY["C20"] = lambda prop, tier, replay, t0: v_okl.run_tv(C20Spec(), prop, tier, replay, t0)
m("C20", "translation_validation",
  "Whole generated OKL kernels (shared/exclusive/atomic/barriers/nesting/tile/dim/control flow) are translated by all seven back ends and "
  "executed — Serial/OpenMP natively, the GPU back ends under an emulation of their launch model — and every output array is compared "
  "with the sequential reading of the same AST compiled by g++, with guard pages and -fsanitize=bounds for out-of-range accesses.",
  "Trusted: the generator's sequential-reading emitter (shares the AST, not OCCA code), g++, emu/ shims. Lost updates of non-atomic "
  "RMWs cannot be observed under fibre emulation; @atomic is therefore also checked structurally.",
  "property-based testing (Hypothesis-driven AST generator) + differential execution against a sequential reference; launch-model emulation; guard pages",
  "hypothesis + g++ + emu", "DESIGN.md §4 C20")
