"""C10 — kernel argument validation (fresh vs cached, against an independent model)."""
from meta import m
from props import REGISTRY, rc_property

# LeakSanitizer is off for this harness: every OKL parse leaks expression / struct-field nodes inside occa::lang
# (parser-internal, reported at exit of any JIT-building process); object lifetimes are C01's subject, not C10's.
_ASAN = ("detect_leaks=0:abort_on_error=0:detect_stack_use_after_return=0:handle_segv=1:"
         "allocator_may_return_null=1:symbolize=1")

REGISTRY["C10"] = rc_property(
    "C10", quick=(30, 40), thorough=(1500, 40),
    rule="case = an OKL kernel signature of 0-6 parameters (16 scalar spellings incl. unsigned/long long, 30 vector types, "
         "structs defined in the source with scalar/vector/fixed-array fields; const in three positions; value, pointer, "
         "T p[n], T p[n][m], typedef'd pointer; element type through 0-2 typedef aliases / typedef struct) plus 3-6 argument "
         "lists derived from the exact match by one mutation (drop/insert an argument, memory<->scalar swap, memory of "
         "another dtype: same base, vector<->scalar, other base, byte, registered struct, registered tuple, opaque custom "
         "type; occa::null; host pointer; other scalar) or by two.  The kernel is JIT-built on a Serial device into a "
         "per-shard OCCA_CACHE_DIR (verified fresh: its hash directory did not exist), every list is run on it, the kernel "
         "and device are freed, the kernel is built again in the same process and in a second process (verified cache hits: "
         "binary inode/mtime/size and directory listing unchanged) and every list is run again.  The three decisions "
         "(ran / occa::exception) must be equal, and equal to the model: raise iff arity differs, memory-likeness differs "
         "from pointer-ness, or the flattened primitive sequences are neither equal nor a whole-number repetition of each "
         "other (byte = wildcard); otherwise run.  Not asserted against the model (only fresh == cached): scalars of another "
         "numeric class, and fixed-array parameters where reading the element type as T or as T[n] changes the verdict.  "
         "Non-trivial = a case containing a list that differs from the exact match in exactly one respect and was decided "
         "fresh and cached.  Distinct = distinct serialised case.",
    assumptions=[
        "Serial mode, host compiler g++ -O0; vector types are supplied to the host compiler by a forced-include header",
        "dtype leaves are compared as primitive classes bool/char/short/int/long/float/double (libocca's dtypes carry no "
        "signedness and map long long to long)",
        "by-value parameters are scalars only (there is no documented way to pass a struct or vector by value)",
        "occa::null counts as a memory object without element type",
        "LeakSanitizer off (the OKL parser leaks AST nodes on every parse; not part of this property); ASan/UBSan on",
    ],
    env_fn=lambda wd: {"VERIF_C10_DIR": wd, "ASAN_OPTIONS": _ASAN}, timeout=50000)

m("C10", "exploration",
  "Property-based differential test of kernel argument validation: generated OKL signatures (primitive, vector, struct, "
  "typedef, const, pointer/array/value parameters) are JIT-compiled on the Serial backend and run with argument lists obtained "
  "from the exact match by single mutations; the ran/raised decision is taken on the freshly compiled kernel, on the kernel "
  "re-loaded from the on-disk cache in the same process and in a second process, and compared with an independent model of "
  "the stated rule (arity, pointer-ness, documented flatten-and-repeat cast rule). Sampled search with shrinking: it finds "
  "divergences between the metadata produced by the parser and the metadata read back from build.json and wrong accept/reject "
  "decisions over the type lattice; it does not prove their absence.",
  "Trusted: the 60-line model, g++ as host compiler, rapidcheck, ASan/UBSan. Serial mode only; by-value parameters are scalars; "
  "scalar-versus-scalar type mismatches and the T-versus-T[n] reading of fixed-array parameters are not asserted against the model.",
  "property-based testing (rapidcheck), metamorphic fresh-vs-cached comparison across two processes plus reference-model oracle",
  "rapidcheck", "DESIGN.md §4 C10")
