"""C18 — @tile covers the original loop's iterations exactly once (translation validation, shares the C17 pipeline)."""
import v_okl
import p_C17
from meta import m
from props import REGISTRY

TILES = [("1", 1), ("2", 2), ("3", 3), ("4", 4), ("5", 5), ("8", 8), ("TS", 4), ("2 * 2", 4), ("(1 << 2)", 4), ("1 << 1", 2), ("2 + 1", 3), ("TS - 1", 3)]
FORMS = ["outer_inner", "outer_inner", "outer_inner", "outer_only", "plain_in_inner", "two_d", "wrapped"]


def tiled_header(rnd, var, check_false):
    """a loop header for the @tile loop.  With check=false the trip count is a multiple of the tile size by construction."""
    tile_txt, tile = rnd.choice(TILES)
    if not check_false:
        h = p_C17.loop_header(rnd, var, "tile", [])
        h["tile"], h["tilev"], h["check_false"] = tile_txt, tile, False
        return h
    ity = rnd.choice(["int", "int", "ptrdiff_t", "short"])
    down = rnd.random() < 0.5
    step_txt, step = rnd.choice([(None, 1), ("1", 1), ("2", 2), ("3", 3), ("1 << 1", 2)])
    k = rnd.randint(1, 3)
    span = tile * k * step                  # trip count = tile * k exactly
    base = rnd.choice(["0", "1", "(n & 1)", "(m & 3)", "2"])
    inclusive = rnd.random() < 0.5
    flip = rnd.random() < 0.4
    if down:
        init = "(%s) + %d" % (base, span - 1 if True else span)
        # values init, init-step, ... ; last visited >= base  (span-1 - (tile*k-1)*step >= 0)
        bound = ("%s" % base) if inclusive else ("(%s) - 1" % base)
        cmp_, op = (">=" if inclusive else ">"), "-"
    else:
        init = base
        bound = ("(%s) + %d" % (base, span - 1)) if inclusive else ("(%s) + %d" % (base, span))
        cmp_, op = ("<=" if inclusive else "<"), "+"
    if flip:
        check = "%s %s %s" % (bound, {"<": ">", "<=": ">=", ">": "<", ">=": "<="}[cmp_], var)
    else:
        check = "%s %s %s" % (var, cmp_, bound)
    upd = ("%s%s%s" % (op, op, var)) if step_txt is None else "%s %s= %s" % (var, op, step_txt)
    return {"var": var, "type": ity, "init": init, "check": check, "update": upd, "kind": "tile", "down": down,
            "inclusive": inclusive, "step": step_txt, "flip": flip, "bound": bound, "rel": False,
            "tile": tile_txt, "tilev": tile, "check_false": True}


def program(rnd):
    form = rnd.choice(FORMS)
    check_false = rnd.random() < 0.25
    d = {"form": form, "t": [tiled_header(rnd, "t0", check_false)], "extra": []}
    if form == "two_d":
        d["t"].append(tiled_header(rnd, "t1", check_false))
    if form == "outer_only":
        d["extra"].append(p_C17.loop_header(rnd, "i0", "inner", []))
    if form == "plain_in_inner":
        d["extra"].append(p_C17.loop_header(rnd, "o0", "outer", []))
        d["extra"].append(p_C17.loop_header(rnd, "i0", "inner", []))
    if form == "wrapped":
        d["extra"].append(p_C17.loop_header(rnd, "o0", "outer", []))
    lowest = 0 if any(l["type"] == "size_t" for l in d["t"] + d["extra"]) else -2
    d["vals"] = [(rnd.randint(3, 11), rnd.randint(2, 9), rnd.randint(1, 3)),
                 (rnd.randint(1, 17), rnd.randint(0, 6), rnd.randint(1, 4)),
                 (rnd.randint(lowest, 2), rnd.randint(max(lowest, -1), 2), rnd.randint(1, 2))]
    return d


def _for(l, attr):
    return "for (%s %s = %s; %s; %s%s) {" % (l["type"], l["var"], l["init"], l["check"], l["update"], ("; " + attr) if attr else "")


def _tile_attr(l, inner_attrs):
    a = "@tile(" + l["tile"] + inner_attrs
    if l["check_false"]:
        a += ", check=false"
    return a + ")"


def render(d, name):
    form = d["form"]
    loops = []      # (header dict, okl attribute text)
    if form in ("outer_inner",):
        loops = [(d["t"][0], _tile_attr(d["t"][0], ", @outer, @inner"))]
    elif form == "two_d":
        loops = [(d["t"][0], _tile_attr(d["t"][0], ", @outer, @inner")), (d["t"][1], _tile_attr(d["t"][1], ", @outer, @inner"))]
    elif form == "outer_only":
        loops = [(d["t"][0], _tile_attr(d["t"][0], ", @outer")), (d["extra"][0], "@inner")]
    elif form == "plain_in_inner":
        loops = [(d["extra"][0], "@outer"), (d["extra"][1], "@inner"), (d["t"][0], _tile_attr(d["t"][0], ""))]
    else:  # wrapped: an ordinary @outer loop around a fully tiled loop
        loops = [(d["extra"][0], "@outer"), (d["t"][0], _tile_attr(d["t"][0], ", @outer, @inner"))]
    okl = ["#define TS 4", p_C17.VISIT_PROTO, "@kernel void %s(const int n, const int m, const int s) {" % name]
    ref = ["#undef TS\n#define TS 4", "static void ref_%s(const int n, const int m, const int s) {" % name]
    for dpt, (l, attr) in enumerate(loops):
        pad = "  " * (dpt + 1)
        okl.append(pad + _for(l, attr))
        ref.append(pad + _for(l, ""))
    vs = [l["var"] for l, _ in loops] + ["0"] * (6 - len(loops))
    call = "%svisit(%s);" % ("  " * (len(loops) + 1), ", ".join(vs))
    okl.append(call)
    ref.append(call)
    for dpt in range(len(loops), 0, -1):
        okl.append("  " * dpt + "}")
        ref.append("  " * dpt + "}")
    okl.append("}")
    ref.append("}")
    params = [("const int", "n", False), ("const int", "m", False), ("const int", "s", False)]
    calls = [[str(a), str(b), str(c)] for a, b, c in d["vals"]]
    return v_okl.Kernel(name, params, "\n".join(okl) + "\n", "\n".join(ref) + "\n", calls, meta=d)


def valid(d):
    return p_C17.const_eval_ok({"loops": d["t"] + d["extra"]})


def nontrivial(d):
    return any((l["step"] not in (None, "1")) or l["down"] or not l["check_false"] for l in d["t"])


def simplify(d):
    outs = []
    if len(d["vals"]) > 1:
        for i in range(len(d["vals"])):
            outs.append(dict(d, vals=d["vals"][:i] + d["vals"][i + 1:]))
    if d["form"] in ("two_d",):
        outs.append(dict(d, form="outer_inner", t=d["t"][:1]))
        outs.append(dict(d, form="outer_inner", t=d["t"][1:]))
    if d["form"] in ("wrapped",):
        outs.append(dict(d, form="outer_inner", extra=[]))
    for i, l in enumerate(d["t"]):
        if l["tile"] not in ("2", "4"):
            l2 = dict(l, tile=str(l["tilev"]))
            outs.append(dict(d, t=d["t"][:i] + [l2] + d["t"][i + 1:]))
    return outs


class C18Spec(v_okl.Spec):
    quick, thorough = (5, 24), (300, 24)
    program = staticmethod(program)
    render = staticmethod(render)
    valid = staticmethod(valid)
    nontrivial = staticmethod(nontrivial)
    simplify = staticmethod(simplify)
    rule = ("case = OKL kernel whose loop nest contains a loop annotated @tile(T[, @outer[, @inner]][, check=false]) with T from literals, a "
            "macro and constant expressions (1,2,3,4,5,8, TS, 2*2, (1<<2), 1<<1, 2+1, TS-1), generated headers as in C17 (all comparisons, "
            "operand orders, ++/--/+=/-=, steps 1,2,3,s,...), forms: @tile(T,@outer,@inner); 2-D nesting of two such loops; @tile(T,@outer) "
            "with an @inner loop inside; a plain @tile(T) loop inside @outer/@inner; an @outer loop around a tiled loop.  With check=false "
            "the trip count is a multiple of T by construction.  Each of the 7 translations is executed (GPU back ends under emu/) for 3 "
            "run-time value tuples and the visited iterator tuples are compared with the untiled loops compiled by g++.  Non-trivial = "
            "tiled loop with step != 1, decrementing, or with the bounds check active (trip count not a multiple of T in general).")
    assume = p_C17.ASSUME + ["tile sizes are positive constants"]

    def classes(self, d):
        out = ["form:" + d["form"]]
        for l in d["t"]:
            out += ["tile:" + l["tile"], "check=false" if l["check_false"] else "check=true", "step!=1" if l["step"] not in (None, "1") else "unit-step",
                    "decrementing" if l["down"] else "incrementing"]
        return out

    def known_filter(self, k, mode, txt, known_ids):
        return p_C17.C17Spec.known_filter(self, k, mode, txt, known_ids)


REGISTRY["C18"] = lambda prop, tier, replay, t0: v_okl.run_tv(C18Spec(), prop, tier, replay, t0)
m("C18", "translation_validation",
  "Generated @tile loops (all header forms, tile sizes given as literals, macros and constant expressions, with and without bounds "
  "check, 1-D and 2-D, combined with @outer/@inner) are translated by all seven back ends, executed (GPU back ends under the launch "
  "model emulation) and compared, as multisets of visited iterator values, with the untiled loop compiled by g++.",
  "Trusted: g++ as reference semantics, emu/ shims. check=false cases are multiples of the tile size by construction.",
  "property-based testing (Hypothesis-driven grammar generator) + differential execution against the host compiler; launch-model emulation",
  "hypothesis + g++ + emu", "DESIGN.md §4 C18")
