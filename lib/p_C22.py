"""C22 — every backend enforces the same OKL rules (generated valid kernels + single-rule mutations, all 7 translators)."""
import re

import v_okl
import p_C20
from meta import m
from props import REGISTRY

MUTATIONS = ["none", "none", "no_outer", "no_inner", "swap_outer_inner", "outer_in_inner", "unequal_nesting", "nonvoid", "break_in_inner",
             "continue_in_outer", "hdr_no_init", "hdr_two_decl", "hdr_float_iter", "hdr_neq", "hdr_other_var", "hdr_mul_update",
             "shared_in_inner", "exclusive_in_inner", "shared_outside_outer", "exclusive_outside_outer", "shared_scalar", "shared_runtime_size",
             # rule broken in ONE nest only, next to a valid nest (before / after it)
             "stray_inner_before", "stray_inner_after", "outer_without_inner_before", "outer_without_inner_after"]


_cycle = [0]


def program(rnd):
    d = p_C20.program(rnd)
    d["sibling"] = rnd.choice([None, None, "plain"])       # @tile siblings carry their own @outer/@inner: kept out of the attribute mutations
    # the rule to break cycles deterministically through the list (Hypothesis' Random is not uniform: some rules were starved)
    d["mut"] = MUTATIONS[_cycle[0] % len(MUTATIONS)]
    _cycle[0] += 1
    if d["mut"] == "unequal_nesting":
        d["NI1"] = max(d["NI1"], 2)
        if len(d["phases"]) < 2:
            d["phases"] = d["phases"] + d["phases"]
    return d


def _first_inner_body_pos(okl):
    """index just after the '{' of the innermost first @inner loop header line"""
    mm = list(re.finditer(r"for \([^\n]*@inner[^\n]*\{\n", okl))
    return mm[0].end() if mm else -1


def mutate(okl, d, name):
    mu = d["mut"]
    if mu == "none":
        return okl
    if mu == "no_outer":
        return okl.replace("; @outer", "")
    if mu == "no_inner":
        return okl.replace("; @inner @nobarrier", "").replace("; @inner", "")
    if mu == "swap_outer_inner":
        return okl.replace("@outer", "@OUTER_TMP").replace("@inner", "@outer").replace("@OUTER_TMP", "@inner")
    if mu == "outer_in_inner":
        p = _first_inner_body_pos(okl)
        return okl[:p] + "        for (int zq = 0; zq < 2; ++zq; @outer) { }\n" + okl[p:]
    if mu == "unequal_nesting":
        # drop the i1 @inner loop of the last phase only: sibling inner nests of different depth
        idx = okl.rfind("for (int i1 = 0;")
        if idx < 0:
            return None
        end = okl.index("\n", idx)
        # replace the header line by a plain block
        return okl[:idx] + "{ const int i1 = 0;" + okl[end:]
    if mu == "nonvoid":
        return okl.replace("@kernel void %s(" % name, "@kernel int %s(" % name)
    if mu == "break_in_inner":
        p = _first_inner_body_pos(okl)
        return okl[:p] + "        if (n < 0) break;\n" + okl[p:]
    if mu == "continue_in_outer":
        mm = re.search(r"for \(int o0[^\n]*@outer[^\n]*\{\n", okl)
        return okl[:mm.end()] + "      if (n < 0) continue;\n" + okl[mm.end():]
    hdr = re.search(r"for \(int i0 = 0; i0 < (\d+); \+\+i0; @inner", okl)
    if mu.startswith("hdr_") and not hdr:
        return None
    N = hdr.group(1) if hdr else "1"
    rep = {
        "hdr_no_init": "for (; i0 < %s; ++i0; @inner" % N,
        "hdr_two_decl": "for (int i0 = 0, zq = 1; i0 < %s; ++i0; @inner" % N,
        "hdr_float_iter": "for (float i0 = 0; i0 < %s; ++i0; @inner" % N,
        "hdr_neq": "for (int i0 = 0; i0 != %s; ++i0; @inner" % N,
        "hdr_other_var": "for (int i0 = 0; i0 < %s; ++o0; @inner" % N,
        "hdr_mul_update": "for (int i0 = 1; i0 < %s; i0 *= 2; @inner" % N,
    }
    if mu in rep:
        out = okl.replace(hdr.group(0), rep[mu], 1)
        if mu == "hdr_no_init":
            mm = re.search(r"for \(int o0[^\n]*@outer[^\n]*\{\n", out)
            out = out[:mm.end()] + "    int i0 = 0;\n" + out[mm.end():]
        return out
    if mu in ("shared_in_inner", "exclusive_in_inner"):
        p = _first_inner_body_pos(okl)
        decl = "        @shared int zsh[4];\n" if mu == "shared_in_inner" else "        @exclusive int zex;\n"
        return okl[:p] + decl + okl[p:]
    if mu in ("shared_outside_outer", "exclusive_outside_outer"):
        mm = re.search(r"@kernel void \w+\([^\n]*\) \{\n", okl)
        decl = "  @shared int zsh[4];\n" if mu == "shared_outside_outer" else "  @exclusive int zex;\n"
        return okl[:mm.end()] + decl + okl[mm.end():]
    if mu in ("stray_inner_before", "outer_without_inner_before"):
        mm = re.search(r"@kernel void \w+\([^\n]*\) \{\n", okl)
        attr = "@inner" if mu == "stray_inner_before" else "@outer"
        return okl[:mm.end()] + "  for (int zq = 0; zq < 2; ++zq; %s) {\n    cnt[0] = cnt[0];\n  }\n" % attr + okl[mm.end():]
    if mu in ("stray_inner_after", "outer_without_inner_after"):
        idx = okl.rstrip().rfind("}")
        attr = "@inner" if mu == "stray_inner_after" else "@outer"
        return okl[:idx] + "  for (int zq = 0; zq < 2; ++zq; %s) {\n    cnt[0] = cnt[0];\n  }\n" % attr + okl[idx:]
    if mu in ("shared_scalar", "shared_runtime_size"):
        mm = re.search(r"for \(int o0[^\n]*@outer[^\n]*\{\n", okl)
        decl = "    @shared int zsc;\n" if mu == "shared_scalar" else "    @shared int zsr[n];\n"
        return okl[:mm.end()] + decl + okl[mm.end():]
    return None


def render(d, name):
    k = p_C20.render(d, name)
    mut = mutate(k.okl, d, name)
    k.okl = mut if mut is not None else k.okl
    k.meta = d
    k.expect = "accept" if (d["mut"] == "none" or mut is None) else "reject"
    return k


def valid(d):
    return p_C20.valid(d)


def simplify(d):
    return [dict(x, mut=d["mut"]) for x in p_C20.simplify(d) if "mut" not in x or True]


class C22Spec(v_okl.Spec):
    level = "exploration"
    quick, thorough = (16, 14), (600, 14)
    program = staticmethod(program)
    render = staticmethod(render)
    valid = staticmethod(valid)
    simplify = staticmethod(simplify)
    rule = ("case = valid OKL kernel from the C20 AST generator, either unchanged or with exactly one rule broken: all @outer removed; all @inner "
            "removed; @outer and @inner swapped (@inner outside @outer); an @outer loop inside an @inner loop; sibling inner nests of different depth; "
            "non-void return type; break directly in an @inner loop; continue directly in an @outer loop; loop header without init / with two "
            "declarators / float iterator / != comparison / update of another variable / *= update; @shared or @exclusive declared inside @inner or "
            "outside @outer; @shared scalar; @shared array with run-time size; a stray top-level @inner loop, or an @outer loop without @inner, placed before or "
            "after an otherwise valid nest (the rule is broken in one nest only).  Every case is given to all 7 translators in-process: mutants must be "
            "rejected (errors or occa::exception), unmutated kernels accepted, and the 7 verdicts must agree.  Non-trivial = every mutated case.")
    assume = ["@atomic is only used in the statement forms every backend documents (+=, -=); block-form @atomic is not generated",
              "a translator crash (sanitizer abort) on a mutant is reported as a violation of C22 too (it is not a rejection)"]

    def nontrivial(self, d):
        return d["mut"] != "none"

    def classes(self, d):
        return ["mutation:" + d["mut"]]

    def custom_batch(self, tr, wd, kernels, tag, modes, known_filter, excl):
        reqs = [(k.name, mode, k.okl, "") for k in kernels for mode in modes]
        res = tr.translate_many(reqs)
        fails = []
        for k in kernels:
            verdicts = {}
            for mode in modes:
                r = res[(k.name, mode)]
                if "crash" in r:
                    verdicts[mode] = "crash"
                    fails.append({"kernel": k.name, "mode": mode, "what": "[%s] %s" % (k.meta["mut"], r["crash"])})
                else:
                    verdicts[mode] = "accept" if r["ok"] else "reject"
            wrong = [mo for mo in modes if verdicts[mo] not in ("crash", k.expect)]
            if wrong:
                diag = ""
                if k.expect == "accept":
                    diag = ": " + re.sub(r"\x1b\[[0-9;]*m", "", res[(k.name, wrong[0])].get("diag", ""))[-250:].replace("\n", " | ")
                txt = "[%s] expected every translator to %s the kernel, but %s %s it%s" % (
                    k.meta["mut"], k.expect, ",".join(wrong), "rejected" if k.expect == "accept" else "accepted", diag)
                kid = known_filter(k, wrong[0], txt) if known_filter else None
                if kid:
                    excl[kid] = excl.get(kid, 0) + 1
                else:
                    fails.append({"kernel": k.name, "mode": wrong[0], "what": txt})
        return fails

    def known_filter(self, k, mode, txt, known_ids):
        for kid in known_ids:
            if kid.startswith("rule-not-enforced-") and ("[%s]" % kid[len("rule-not-enforced-"):]) in txt and "accepted" in txt:
                return kid
        return None


REGISTRY["C22"] = lambda prop, tier, replay, t0: v_okl.run_tv(C22Spec(), prop, tier, replay, t0)
m("C22", "exploration",
  "Generated valid kernels and all single-rule mutations of them are given to the seven translators in-process; the oracle is the rule "
  "list of the property: every mutant rejected by every translator, every unmutated kernel accepted by every translator, verdicts equal.",
  "Trusted: the mutation operators really break exactly one listed rule (they are textual edits of a kernel that all translators accept "
  "unmutated). No compiler is involved.",
  "property-based testing (Hypothesis-driven AST generator + rule-breaking mutation operators), differential across 7 translators",
  "hypothesis + w_okl worker", "DESIGN.md §4 C22")
