"""Reference semantics for integer/floating constant expressions (shared by C13 and C14).

Two evaluators over the same expression trees:
  * cxx_eval : C++17 typing on an LP64 target (bool, int, unsigned, long, unsigned long, float, double):
               integral promotion, usual arithmetic conversions, shifts typed by the promoted left operand,
               ?: typed by the common type, short circuit.  Raises Undefined for anything whose C++ behaviour
               is undefined or that we refuse to rely on (signed overflow, /0, %0, INT_MIN/-1, shift count out
               of range, << of a negative or overflowing signed value, float->int out of range, non-finite
               floating results, float /0).
  * pp_eval  : the preprocessor's #if semantics (C11 6.10.1): every operand intmax_t or uintmax_t.
               Raises Undefined for /0, %0, overflow of intmax_t, out-of-range shift counts.
Trees are JSON-able lists:
  ["lit", text, kind, value, suffix]      kind in dec|hex|oct|bin ; suffix lower-case canonical ("", u, l, ul)
  ["flt", text]                           floating literal (suffix f/F => float)
  ["bool", "true"|"false"]
  ["un", op, a]  ["bin", op, a, b]  ["tern", c, a, b]  ["par", a]
  ["def", name, paren_style, is_defined]  (pp only)   ["id0", name] (pp only: identifier that is not a macro => 0)
  ["mac", name, body_tree]                (pp only: object-like value macro; text = name, value = body)
  ["call", name, [args], inst_tree]       (pp only: function-like value macro; inst_tree = body with arguments substituted)
"""
import struct
from fractions import Fraction


class Undefined(Exception):
    pass


INT_T = {"int": (True, 32), "uint": (False, 32), "long": (True, 64), "ulong": (False, 64)}
RANK = {"bool": 0, "int": 1, "uint": 2, "long": 3, "ulong": 4, "float": 5, "double": 6}
WIDTH = {"bool": 1, "int": 4, "uint": 4, "long": 8, "ulong": 8, "float": 4, "double": 8}
SIGNED = {"bool": 0, "int": 1, "uint": 0, "long": 1, "ulong": 0, "float": 1, "double": 1}
OCCA_NAME = {"bool": "bool", "int": "int32", "uint": "uint32", "long": "int64", "ulong": "uint64",
             "float": "float", "double": "double"}


def is_float(t):
    return t in ("float", "double")


def rng(t):
    s, b = INT_T[t]
    return (-(1 << (b - 1)), (1 << (b - 1)) - 1) if s else (0, (1 << b) - 1)


def fits(v, t):
    lo, hi = rng(t)
    return lo <= v <= hi


def wrap(v, t):
    s, b = INT_T[t]
    v &= (1 << b) - 1
    if s and v >= (1 << (b - 1)):
        v -= (1 << b)
    return v


# ---- floating helpers -------------------------------------------------------------------------------
F32_MAX = (2 - 2 ** -23) * 2.0 ** 127


def round_f32(x):
    """double -> nearest float (round half even), as a Python float; inf if out of range."""
    if x != x or x in (float("inf"), float("-inf")):
        return x
    try:
        return struct.unpack("<f", struct.pack("<f", x))[0]
    except OverflowError:
        return float("inf") if x > 0 else float("-inf")


def frac_to_float(fr, mant, emin, emax):
    """Correctly rounded (half even) conversion of a Fraction to a binary float with `mant` significand bits.
    Returns a Python float (exact because mant <= 53), or raises Undefined when out of range."""
    if fr == 0:
        return 0.0
    sign = -1 if fr < 0 else 1
    fr = abs(fr)
    n, d = fr.numerator, fr.denominator
    e = n.bit_length() - d.bit_length()          # 2^(e-1) <= fr < 2^(e+1)
    if (n << max(0, -e)) < (d << max(0, e)):
        e -= 1                                    # now 2^e <= fr < 2^(e+1)
    e = max(e, emin)                              # subnormals share the minimum exponent
    shift = mant - 1 - e                          # scaled = fr * 2^shift has `mant` integer bits
    num = n << shift if shift >= 0 else n
    den = d if shift >= 0 else d << (-shift)
    q, r = divmod(num, den)
    if 2 * r > den or (2 * r == den and (q & 1)):
        q += 1
    val = Fraction(q, 1) * (Fraction(2) ** (-shift) if shift >= 0 else Fraction(2) ** (-shift))
    res = float(val)
    if res > (2 - 2.0 ** (1 - mant)) * 2.0 ** emax:
        raise Undefined("floating literal/conversion out of range")
    return sign * res


def to_f32_exact(fr):
    return frac_to_float(Fraction(fr), 24, -126, 127)


def to_f64_exact(fr):
    return frac_to_float(Fraction(fr), 53, -1022, 1023)


def fbits(v, t):
    if t == "float":
        return struct.unpack("<I", struct.pack("<f", v))[0]
    return struct.unpack("<Q", struct.pack("<d", v))[0]


def value_bits(t, v):
    """value zero-extended to 64 bits, as the worker and the g++ TU print it"""
    if is_float(t):
        return fbits(v, t)
    if t == "bool":
        return 1 if v else 0
    return v & ((1 << INT_T[t][1]) - 1)


def finite(x):
    return x == x and x not in (float("inf"), float("-inf"))


# ---- literals ---------------------------------------------------------------------------------------
def lit_cxx_type(kind, value, suf):
    """C++17 [lex.icon] table, LP64.  None => ill-formed (no type fits)."""
    if kind == "dec":
        cands = {"": ["int", "long"], "u": ["uint", "ulong"], "l": ["long"], "ul": ["ulong"]}[suf]
    else:
        cands = {"": ["int", "uint", "long", "ulong"], "u": ["uint", "ulong"], "l": ["long", "ulong"], "ul": ["ulong"]}[suf]
    for t in cands:
        if fits(value, t):
            return t
    return None


def lit_suffix_type(suf):
    return {"": "int", "u": "uint", "l": "long", "ul": "ulong"}[suf]


def lit_pp_unsigned(kind, value, suf):
    """preprocessor: unsigned iff u suffix or the value does not fit intmax_t (decimal: gcc warns; we never generate it)"""
    return "u" in suf or value > (1 << 63) - 1


def flt_value(text):
    body = text.rstrip("fF")
    isf = body != text
    fr = Fraction(body) if ("e" not in body.lower()) else Fraction(*_sci(body))
    return ("float", to_f32_exact(fr)) if isf else ("double", to_f64_exact(fr))


def _sci(body):
    m, e = body.lower().split("e")
    e = int(e)
    fr = Fraction(m if m not in ("", ".") else "0")
    fr = fr * (Fraction(10) ** e)
    return fr.numerator, fr.denominator


# ---- conversions ------------------------------------------------------------------------------------
def promote(t):
    return "int" if t == "bool" else t


def uac(a, b):
    if "double" in (a, b):
        return "double"
    if "float" in (a, b):
        return "float"
    a, b = promote(a), promote(b)
    return a if RANK[a] >= RANK[b] else b


def int_to_float(v, t):
    return to_f32_exact(Fraction(v)) if t == "float" else float(v) if abs(v) < (1 << 53) else to_f64_exact(Fraction(v))


def convert(v, ft, tt):
    if ft == tt:
        return v
    if tt == "bool":
        return 1 if v != 0 else 0
    if is_float(tt):
        if is_float(ft):
            if tt == "double":
                return v
            r = round_f32(v)
            if not finite(r):
                raise Undefined("double->float out of range")
            return r
        return int_to_float(int(v), tt)
    # integer target
    if is_float(ft):
        tv = int(v)                      # truncation toward zero
        if not fits(tv, tt):
            raise Undefined("float->int out of range")
        return tv
    return wrap(int(v), tt)


def truth(v):
    return v != 0


# ---- C++ evaluation ---------------------------------------------------------------------------------
def tdiv(a, b):
    q = abs(a) // abs(b)
    return q if (a < 0) == (b < 0) else -q


def arith(op, t, a, b):
    """a, b already converted to t"""
    if is_float(t):
        if op == "+":
            r = a + b
        elif op == "-":
            r = a - b
        elif op == "*":
            r = a * b
        elif op == "/":
            if b == 0:
                raise Undefined("float division by zero")
            r = a / b
        else:
            raise Undefined("bad float op " + op)
        if t == "float":
            r = round_f32(r)
        if not finite(r):
            raise Undefined("non-finite floating result")
        return r
    s, bits = INT_T[t]
    if op in "+-*":
        r = a + b if op == "+" else a - b if op == "-" else a * b
        if s:
            if not fits(r, t):
                raise Undefined("signed overflow")
            return r
        return wrap(r, t)
    if op in "/%":
        if b == 0:
            raise Undefined("division by zero")
        if s and a == rng(t)[0] and b == -1:
            raise Undefined("INT_MIN / -1")
        q = tdiv(a, b)
        return q if op == "/" else a - q * b
    if op == "&":
        return wrap((a & ((1 << bits) - 1)) & (b & ((1 << bits) - 1)), t)
    if op == "|":
        return wrap((a & ((1 << bits) - 1)) | (b & ((1 << bits) - 1)), t)
    if op == "^":
        return wrap((a & ((1 << bits) - 1)) ^ (b & ((1 << bits) - 1)), t)
    raise Undefined("bad op " + op)


def shift(op, t, a, n):
    s, bits = INT_T[t]
    if n < 0 or n >= bits:
        raise Undefined("shift count out of range")
    if op == "<<":
        if s:
            if a < 0:
                raise Undefined("<< of negative value")
            r = a << n
            if not fits(r, t):
                raise Undefined("<< overflows")
            return r
        return wrap(a << n, t)
    return a >> n        # Python's >> floors: arithmetic shift for negatives (what g++ and clang do)


REL = {"<": lambda a, b: a < b, "<=": lambda a, b: a <= b, ">": lambda a, b: a > b, ">=": lambda a, b: a >= b,
       "==": lambda a, b: a == b, "!=": lambda a, b: a != b}


def cxx_eval(n, visit=None):
    """-> (type, value).  `visit(node, type, value)` is called for every *evaluated* node."""
    k = n[0]
    if k == "lit":
        t = lit_cxx_type(n[2], n[3], n[4])
        if t is None:
            raise Undefined("ill-formed literal")
        r = (t, n[3])
    elif k == "flt":
        r = flt_value(n[1])
    elif k == "bool":
        r = ("bool", 1 if n[1] == "true" else 0)
    elif k == "par":
        r = cxx_eval(n[1], visit)
    elif k == "un":
        op = n[1]
        t, v = cxx_eval(n[2], visit)
        if op == "!":
            r = ("bool", 0 if truth(v) else 1)
        else:
            pt = promote(t)
            v = convert(v, t, pt)
            if op == "+":
                r = (pt, v)
            elif op == "-":
                if is_float(pt):
                    r = (pt, -v)
                elif INT_T[pt][0]:
                    if v == rng(pt)[0]:
                        raise Undefined("negation overflow")
                    r = (pt, -v)
                else:
                    r = (pt, wrap(-v, pt))
            elif op == "~":
                if is_float(pt):
                    raise Undefined("~ on float")
                r = (pt, wrap(~v, pt))
            else:
                raise Undefined("bad unary " + op)
    elif k == "bin":
        op = n[1]
        if op in ("&&", "||"):
            lt, lv = cxx_eval(n[2], visit)
            if op == "&&" and not truth(lv):
                r = ("bool", 0)
            elif op == "||" and truth(lv):
                r = ("bool", 1)
            else:
                rt, rv = cxx_eval(n[3], visit)
                r = ("bool", 1 if truth(rv) else 0)
        else:
            lt, lv = cxx_eval(n[2], visit)
            rt, rv = cxx_eval(n[3], visit)
            if op in ("<<", ">>"):
                if is_float(lt) or is_float(rt):
                    raise Undefined("shift on float")
                t = promote(lt)
                r = (t, shift(op, t, convert(lv, lt, t), convert(rv, rt, promote(rt))))
            else:
                t = uac(lt, rt)
                a, b = convert(lv, lt, t), convert(rv, rt, t)
                if op in REL:
                    r = ("bool", 1 if REL[op](a, b) else 0)
                else:
                    if is_float(t) and op in "%&|^":
                        raise Undefined("integer operator on float")
                    r = (t, arith(op, t, a, b))
    elif k == "tern":
        ct, cv = cxx_eval(n[1], visit)
        at, bt = static_type(n[2]), static_type(n[3])
        t = at if at == bt else uac(at, bt)
        st, sv = cxx_eval(n[2] if truth(cv) else n[3], visit)
        r = (t, convert(sv, st, t))
    else:
        raise Undefined("node kind %s has no C++ meaning" % k)
    if visit:
        visit(n, r[0], r[1])
    return r


def static_type(n):
    """C++ type of a tree without evaluating it (needed for unevaluated ?: branches)."""
    k = n[0]
    if k == "lit":
        t = lit_cxx_type(n[2], n[3], n[4])
        if t is None:
            raise Undefined("ill-formed literal")
        return t
    if k == "flt":
        return "float" if n[1][-1] in "fF" else "double"
    if k == "bool":
        return "bool"
    if k == "par":
        return static_type(n[1])
    if k == "un":
        return "bool" if n[1] == "!" else promote(static_type(n[2]))
    if k == "bin":
        op = n[1]
        if op in ("&&", "||") or op in REL:
            return "bool"
        if op in ("<<", ">>"):
            return promote(static_type(n[2]))
        return uac(static_type(n[2]), static_type(n[3]))
    if k == "tern":
        a, b = static_type(n[2]), static_type(n[3])
        return a if a == b else uac(a, b)
    raise Undefined("node kind %s has no C++ type" % k)


# ---- preprocessor evaluation ------------------------------------------------------------------------
I64 = "long"
U64 = "ulong"


def pp_eval(n, visit=None):
    """-> (unsigned?, value) in intmax_t/uintmax_t.  Undefined => the directive would be an error / is refused."""
    k = n[0]
    if k == "lit":
        u = lit_pp_unsigned(n[2], n[3], n[4])
        if n[3] > (1 << 64) - 1:
            raise Undefined("literal too large")
        r = (u, n[3])
    elif k in ("def",):
        r = (False, 1 if n[3] else 0)
    elif k == "id0":
        r = (False, 0)
    elif k == "mac":
        r = pp_eval(n[2], visit)
    elif k == "call":
        r = pp_eval(n[3], visit)
    elif k == "par":
        r = pp_eval(n[1], visit)
    elif k == "un":
        op = n[1]
        u, v = pp_eval(n[2], visit)
        t = U64 if u else I64
        if op == "!":
            r = (False, 0 if v else 1)
        elif op == "+":
            r = (u, v)
        elif op == "-":
            if not u and v == rng(I64)[0]:
                raise Undefined("negation overflow")
            r = (u, wrap(-v, t))
        elif op == "~":
            r = (u, wrap(~v, t))
        else:
            raise Undefined("bad unary")
    elif k == "bin":
        op = n[1]
        if op in ("&&", "||"):
            lu, lv = pp_eval(n[2], visit)
            if op == "&&" and not lv:
                r = (False, 0)
            elif op == "||" and lv:
                r = (False, 1)
            else:
                ru, rv = pp_eval(n[3], visit)
                r = (False, 1 if rv else 0)
        else:
            lu, lv = pp_eval(n[2], visit)
            ru, rv = pp_eval(n[3], visit)
            if op in ("<<", ">>"):
                t = U64 if lu else I64
                r = (lu, shift(op, t, lv, rv))
            else:
                u = lu or ru
                t = U64 if u else I64
                a, b = wrap(lv, t), wrap(rv, t)
                if op in REL:
                    r = (False, 1 if REL[op](a, b) else 0)
                else:
                    r = (u, arith(op, t, a, b))
    elif k == "tern":
        cu, cv = pp_eval(n[1], visit)
        u = pp_unsigned(n[2]) or pp_unsigned(n[3])
        su, sv = pp_eval(n[2] if cv else n[3], visit)
        r = (u, wrap(sv, U64 if u else I64))
    else:
        raise Undefined("node kind %s not allowed in #if" % k)
    if visit:
        visit(n, r[0], r[1])
    return r


def pp_unsigned(n):
    k = n[0]
    if k == "lit":
        return lit_pp_unsigned(n[2], n[3], n[4])
    if k in ("def", "id0"):
        return False
    if k == "mac":
        return pp_unsigned(n[2])
    if k == "call":
        return pp_unsigned(n[3])
    if k == "par":
        return pp_unsigned(n[1])
    if k == "un":
        return False if n[1] == "!" else pp_unsigned(n[2])
    if k == "bin":
        op = n[1]
        if op in ("&&", "||") or op in REL:
            return False
        if op in ("<<", ">>"):
            return pp_unsigned(n[2])
        return pp_unsigned(n[2]) or pp_unsigned(n[3])
    if k == "tern":
        return pp_unsigned(n[2]) or pp_unsigned(n[3])
    raise Undefined("kind")


def to_cxx_tree(n):
    """The tree OCCA's evaluator sees after macro expansion of an #if line: defined(X) -> bool literal,
    unknown identifiers -> 0, value macros -> their (parenthesised) bodies."""
    k = n[0]
    if k == "def":
        return ["bool", "true" if n[3] else "false"]
    if k == "id0":
        return ["lit", "0", "dec", 0, ""]
    if k == "mac":
        return to_cxx_tree(n[2])
    if k == "call":
        return to_cxx_tree(n[3])
    if k == "par":
        return ["par", to_cxx_tree(n[1])]
    if k == "un":
        return ["un", n[1], to_cxx_tree(n[2])]
    if k == "bin":
        return ["bin", n[1], to_cxx_tree(n[2]), to_cxx_tree(n[3])]
    if k == "tern":
        return ["tern", to_cxx_tree(n[1]), to_cxx_tree(n[2]), to_cxx_tree(n[3])]
    return n


# ---- text -------------------------------------------------------------------------------------------
PREC = {"*": 13, "/": 13, "%": 13, "+": 12, "-": 12, "<<": 11, ">>": 11, "<": 10, "<=": 10, ">": 10, ">=": 10,
        "==": 9, "!=": 9, "&": 8, "^": 7, "|": 6, "&&": 5, "||": 4}


def prec(n):
    k = n[0]
    if k == "bin":
        return PREC[n[1]]
    if k == "tern":
        return 3
    if k == "un":
        return 14
    return 15


def text(n):
    """Source text with exactly the parentheses present in the tree ("par" nodes); the generator inserts "par"
    nodes wherever C++ precedence requires them, so tree structure == C++ parse."""
    k = n[0]
    if k in ("lit", "flt"):
        return n[1]
    if k == "bool":
        return n[1]
    if k == "par":
        return "( " + text(n[1]) + " )"
    if k == "un":
        return n[1] + " " + text(n[2])
    if k == "bin":
        return text(n[2]) + " " + n[1] + " " + text(n[3])
    if k == "tern":
        return text(n[1]) + " ? " + text(n[2]) + " : " + text(n[3])
    if k == "def":
        return {0: "defined " + n[1], 1: "defined(" + n[1] + ")", 2: "defined ( " + n[1] + " )"}[n[2]]
    if k == "id0":
        return n[1]
    if k == "mac":
        return n[1]
    if k == "call":
        return n[1] + "(" + ", ".join(text(a) for a in n[2]) + ")"
    raise ValueError(k)


def needs_par(parent_kind, parent_op, child, side):
    """Does `child` need parentheses as operand of the parent so that the text parses back to this tree?"""
    cp = prec(child)
    if parent_kind == "un":
        return cp < 14
    if parent_kind == "bin":
        pp_ = PREC[parent_op]
        if side == "l":
            return cp < pp_
        return cp <= pp_
    if parent_kind == "tern":
        if side == "c":
            return cp <= 3
        if side == "a":
            return False          # between ? and : anything goes (we still avoid bare comma)
        return cp < 3             # else branch: a nested ?: is fine unparenthesised (right assoc)
    return False


def walk(n):
    yield n
    k = n[0]
    if k in ("par",):
        yield from walk(n[1])
    elif k == "un":
        yield from walk(n[2])
    elif k == "bin":
        yield from walk(n[2])
        yield from walk(n[3])
    elif k == "tern":
        yield from walk(n[1])
        yield from walk(n[2])
        yield from walk(n[3])
    elif k == "mac":
        yield from walk(n[2])
    elif k == "call":
        for a in n[2]:
            yield from walk(a)
