"""Shared machinery of C08 (crash points of a kernel build) and C09 (concurrent builds):
kernel pool + reference model, compiler wrapper, worker invocation, strace log parsing, cache-state checks."""
import json
import os
import re
import signal
import stat
import subprocess
import time

import vlib

# ------------------------------------------------------------------------------------------------
# kernel pool: kernel <id>(n, a, out) computes out[i] = a[i] * mul + add ; a = 1..10
# ------------------------------------------------------------------------------------------------
N = 10
POOL = {
    "s0": dict(kind="string", mul=2, add=5),
    "s1": dict(kind="string", mul=3, add=-1),
    "f2": dict(kind="file", mul=5, add=7),
    "f3": dict(kind="file+include", mul=7, add=11),
}
MODES = ("Serial", "OpenMP")


def expected_line(kid):
    k = POOL[kid]
    return "RESULT %s %s" % (kid, " ".join(str((i + 1) * k["mul"] + k["add"]) for i in range(N)))


def _kernel_text(kid, mul, add, pre="", pad=0):
    # the padding comment makes the *raw* cached copy longer than one stdio buffer (4096 bytes), so that copying it
    # into the cache takes more than one write(2): there is a kill point in the middle of a file
    padding = ""
    if pad:
        line = "// " + "padding so that the cached raw source spans more than one stdio buffer " + "\n"
        padding = line * (pad // len(line) + 1)
    return (pre + padding +
            "@kernel void %s(const int n, const int *a, int *out) {\n"
            "  for (int i = 0; i < n; ++i; @tile(4, @outer, @inner)) {\n"
            "    out[i] = a[i] * %s + %s;\n"
            "  }\n"
            "}\n" % (kid, mul, add))


def write_sources(srcdir):
    os.makedirs(srcdir, exist_ok=True)
    files = {
        "s0.okl": _kernel_text("s0", POOL["s0"]["mul"], "(%d)" % POOL["s0"]["add"]),
        "s1.okl": _kernel_text("s1", POOL["s1"]["mul"], "(%d)" % POOL["s1"]["add"], pad=5000),
        "f2.okl": _kernel_text("f2", POOL["f2"]["mul"], "(%d)" % POOL["f2"]["add"]),
        "inc3.h": "#define F3_MUL %d\n#define F3_ADD %d\n" % (POOL["f3"]["mul"], POOL["f3"]["add"]),
        "f3.okl": _kernel_text("f3", "F3_MUL", "F3_ADD", pre='#include "inc3.h"\n', pad=5000),
    }
    for fn, txt in files.items():
        p = os.path.join(srcdir, fn)
        with open(p, "w") as f:
            f.write(txt)
    return srcdir


# ------------------------------------------------------------------------------------------------
# compiler wrapper: logs every invocation (S = start, E = end) into $W_CCLOG, optional sleeps, optional gates
# ------------------------------------------------------------------------------------------------
WRAPPER = r"""#!/bin/bash
# logs, then runs the real compiler.  Environment:
#   W_CCLOG      log file (one line per event, appended atomically)
#   W_CC_PRE/W_CC_POST   seconds to sleep before / after the real compiler (kernel compiles only)
#   W_CC_GATE    directory: kernel compiles announce pre.<pid>, wait for go_pre, compile, optionally truncate the
#                output to W_CC_TRUNC per mille of its size, announce post.<pid> and wait for go_post
#                (the waits give up after 60000 polls so that an abandoned wrapper never lives forever)
real=g++
kind=K
out=""
prev=""
for a in "$@"; do
  case "$a" in *findCompilerVendor*|*compilerSupportsOpenMP*) kind=V;; esac
  if [ "$prev" = "-o" ]; then out="$a"; fi
  prev="$a"
done
echo "S $$ $kind $out" >> "$W_CCLOG"
if [ "$kind" = K ]; then
  if [ -n "$W_CC_GATE" ]; then
    : > "$W_CC_GATE/pre.$$"
    n=0; while [ ! -e "$W_CC_GATE/go_pre" ] && [ $n -lt 60000 ]; do sleep 0.01; n=$((n+1)); done
  fi
  if [ -n "$W_CC_PRE" ]; then sleep "$W_CC_PRE"; fi
fi
"$real" "$@"
rc=$?
if [ "$kind" = K ]; then
  if [ -n "$W_CC_TRUNC" ] && [ -f "$out" ]; then
    sz=$(stat -c %s "$out")
    truncate -s $(( sz * W_CC_TRUNC / 1000 )) "$out"
  fi
  if [ -n "$W_CC_POST" ]; then sleep "$W_CC_POST"; fi
  if [ -n "$W_CC_GATE" ]; then
    : > "$W_CC_GATE/post.$$"
    n=0; while [ ! -e "$W_CC_GATE/go_post" ] && [ $n -lt 60000 ]; do sleep 0.01; n=$((n+1)); done
  fi
fi
echo "E $$ $kind $rc" >> "$W_CCLOG"
exit $rc
"""


def write_wrapper(path):
    with open(path, "w") as f:
        f.write(WRAPPER)
    os.chmod(path, os.stat(path).st_mode | stat.S_IXUSR | stat.S_IXGRP | stat.S_IXOTH)
    return path


def read_cclog(path):
    """-> list of events (tag, pid, kind, rest) in file order."""
    ev = []
    try:
        txt = open(path, errors="replace").read()
    except OSError:
        return ev
    for line in txt.split("\n"):
        p = line.split(" ", 3)
        if len(p) >= 3 and p[0] in ("S", "E"):
            ev.append((p[0], p[1], p[2], p[3] if len(p) > 3 else ""))
    return ev


def unfinished_compilers(cclog):
    started, ended = {}, set()
    for tag, pid, kind, rest in read_cclog(cclog):
        if tag == "S":
            started[pid] = kind
        else:
            ended.add(pid)
    return [int(p) for p in started if p not in ended]


def pid_alive(pid):
    try:
        st = open("/proc/%d/stat" % pid).read()
    except OSError:
        return False
    # zombies do not run any more
    return ") Z" not in st


def wait_orphans(cclog, limit_polls=6000):
    """Wait until every compiler wrapper that logged a start has ended or disappeared (killed).  Bounded by a poll
    count (not a deadline): 6000 polls of 10 ms; returns False if something is still there."""
    for _ in range(limit_polls):
        live = [p for p in unfinished_compilers(cclog) if pid_alive(p)]
        if not live:
            return True
        time.sleep(0.01)
    return False


def overlapping_kernel_compiles(cclog):
    """max number of kernel compiles (kind K) simultaneously open, from the order of the log lines (no clock)."""
    open_, best = set(), 0
    for tag, pid, kind, rest in read_cclog(cclog):
        if kind != "K":
            continue
        if tag == "S":
            open_.add(pid)
            best = max(best, len(open_))
        else:
            open_.discard(pid)
    return best


# ------------------------------------------------------------------------------------------------
# worker
# ------------------------------------------------------------------------------------------------
class Ctx:
    """Per-check context: worker binary, source dir, wrapper."""

    def __init__(self, wd):
        self.wd = wd
        # several checks may start at the same time (C08 and C09, several seeds): build the shared worker under a lock
        import fcntl
        os.makedirs(vlib.HB, exist_ok=True)
        with open(os.path.join(vlib.HB, ".w_crash.lock"), "w") as lk:
            fcntl.flock(lk, fcntl.LOCK_EX)
            self.worker = vlib.build_harness("w_crash", kind="plain")
        self.src = write_sources(os.path.join(wd, "src"))
        self.wrapper = write_wrapper(os.path.join(wd, "ccwrap.sh"))

    def env(self, cache, cclog, traced=False, extra=None):
        e = vlib.base_env(self.wd)
        for k in list(e):
            if k.startswith("OCCA_") or k in ("CXX", "CC", "CXXFLAGS", "CFLAGS", "LDFLAGS"):
                del e[k]
        e["OCCA_CACHE_DIR"] = cache
        e["OCCA_VERBOSE"] = "0"
        e["W_SRC"] = self.src
        e["W_COMPILER"] = self.wrapper
        e["W_CCLOG"] = cclog
        e["OMP_NUM_THREADS"] = "2"
        for k in ("W_CC_PRE", "W_CC_POST", "W_CC_GATE", "W_CC_TRUNC"):
            e.pop(k, None)
        # LeakSanitizer is off for the workers: it cannot run under ptrace (strace), and the OKL parser leaks a few
        # expression nodes on every successful parse (exit code 23), which is not what C08/C09 are about
        e["ASAN_OPTIONS"] = e["ASAN_OPTIONS"].replace("detect_leaks=1", "detect_leaks=0")
        if extra:
            e.update(extra)
        return e

    def run(self, mode, kids, cache, cclog, timeout=600, extra=None):
        """plain run to completion -> (rc, stdout, stderr)"""
        try:
            p = subprocess.run([self.worker, mode, ",".join(kids)], env=self.env(cache, cclog, extra=extra),
                               stdout=subprocess.PIPE, stderr=subprocess.PIPE, text=True, errors="replace",
                               timeout=timeout, stdin=subprocess.DEVNULL)
            return p.returncode, p.stdout, p.stderr
        except subprocess.TimeoutExpired as ex:
            return "timeout", (ex.stdout or b"").decode(errors="replace") if isinstance(ex.stdout, bytes) else (ex.stdout or ""), "TIMEOUT"


def err_summary(err, n=500):
    """the Message / Function lines of an occa::exception report, else the tail of stderr"""
    keep = [l.strip() for l in err.split("\n") if re.match(r"\s*(Message|Function|File|Line)\s*:", l)]
    san = [l.strip() for l in err.split("\n") if "ERROR: AddressSanitizer" in l or "runtime error:" in l]
    if keep or san:
        return " / ".join(san + keep)[:n]
    return err.strip()[-n:]


def check_outputs(kids, stdout):
    """-> None if stdout holds exactly the expected RESULT lines for kids (in order), else a description."""
    got = [l for l in stdout.split("\n") if l.startswith("RESULT ")]
    want = [expected_line(k) for k in kids]
    if got != want:
        return "expected %r, printed %r" % (want, got)
    return None


# ------------------------------------------------------------------------------------------------
# strace
# ------------------------------------------------------------------------------------------------
TRACE_SET = "openat,creat,write,close,rename,renameat2,mkdir,unlink,fsync,fdatasync,wait4"
_CALL = re.compile(r"^([a-z0-9_]+)\((.*)$")
_HEX16 = re.compile(r"(?<![0-9a-f])[0-9a-f]{16}(?![0-9a-f])")


class Call:
    __slots__ = ("idx", "name", "nth", "line", "cache", "norm")


def parse_strace(path, cache):
    """-> list of Call for every traced system call line (in order); nth = ordinal among calls of the same name
    (1-based: exactly what `inject=<name>:when=<nth>` addresses)."""
    calls, per = [], {}
    cache = cache.rstrip("/")
    try:
        txt = open(path, errors="replace").read()
    except OSError:
        return calls
    for line in txt.split("\n"):
        m = _CALL.match(line)
        if not m:
            continue
        c = Call()
        c.name = m.group(1)
        per[c.name] = per.get(c.name, 0) + 1
        c.nth = per[c.name]
        c.idx = len(calls)
        c.line = line
        c.cache = (cache + "/") in line or (cache + '"') in line or (cache + ">") in line
        c.norm = None
        calls.append(c)
    return calls


def normalise(calls, cache):
    """Replace the cache directory, hash directories and random temp prefixes by stable names so that the same
    kill point of two runs compares equal."""
    cache = cache.rstrip("/")
    dirs = {}
    for c in calls:
        s = c.line
        # drop the result part ("= 3</path>" / "= ?")
        s = re.sub(r"\)\s+= .*$", ")", s)
        s = re.sub(r"\s*<unfinished \.\.\.>\s*$", "", s)
        s = s.replace(cache, "$C")

        def dsub(m):
            d = m.group(2)
            if d not in dirs:
                dirs[d] = "H%d" % (len(dirs) + 1)
            return m.group(1) + dirs[d] + m.group(3)
        s = re.sub(r"(\$C(?:/cache)?/)([0-9a-f]{16})(/|\"|>)", dsub, s)
        s = _HEX16.sub("TEMP", s)
        # written bytes and lengths vary with dates / paths
        if c.name == "wait4":
            s = "wait4(...)"
        if c.name == "write":
            s = re.sub(r'^(write\([^,]*),.*$', r"\1, ...)", s)
        s = re.sub(r"AT_FDCWD<[^>]*>", "AT_FDCWD", s)
        s = re.sub(r"(?<![\w/.])\d+<", "N<", s)       # file descriptor numbers
        c.norm = s
    return calls


def temp_path_of(line):
    """the staged temp file named in a strace line (fd annotation or string argument), if any"""
    m = re.search(r'[<"]([^<>"]*/[0-9a-f]{16}\.[^<>"/]+)[>"]', line)
    return m.group(1) if m else None


def strace_cmd(logfile, inject=None):
    cmd = ["strace", "-y", "-o", logfile, "-e", "trace=" + TRACE_SET]
    if inject:
        cmd += ["-e", "inject=" + inject]
    return cmd


# ------------------------------------------------------------------------------------------------
# cache state
# ------------------------------------------------------------------------------------------------
FINAL_TEXT = re.compile(r"^(?![0-9a-f]{16}\.)")


def cache_state_problems(cache):
    """Files under a *final* (non-temp) name that a later build would take for a completed entry must be complete:
    build.json must parse, no final file may be empty (the probe's build.log excepted)."""
    bad = []
    for root, dirs, files in os.walk(cache):
        dirs.sort()
        for fn in sorted(files):
            p = os.path.join(root, fn)
            rel = os.path.relpath(p, cache)
            if re.match(r"^[0-9a-f]{16}\.", fn) or not os.path.isfile(p):
                continue        # stale temp file: never taken for an entry
            try:
                data = open(p, "rb").read()
            except OSError as ex:
                bad.append("%s unreadable: %s" % (rel, ex))
                continue
            if fn == "build.log":
                continue        # compiler messages of the vendor probe; empty when there are none
            if len(data) == 0:
                bad.append("%s is empty" % rel)
            elif fn.endswith(".json"):
                try:
                    json.loads(data.decode(errors="replace"))
                except ValueError:
                    bad.append("%s is not complete JSON (%d bytes)" % (rel, len(data)))
    return bad


def list_cache(cache):
    out = []
    for root, dirs, files in os.walk(cache):
        dirs.sort()
        for fn in sorted(files):
            p = os.path.join(root, fn)
            try:
                out.append("%s %d" % (os.path.relpath(p, cache), os.path.getsize(p)))
            except OSError:
                pass
    return out


def kill_group(pgid):
    try:
        os.killpg(pgid, signal.SIGKILL)
    except OSError:
        pass
