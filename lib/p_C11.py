"""C11 — dtype and kernel-metadata JSON serialisation round trips (rapidcheck)."""
from meta import m
from props import REGISTRY, rc_property

# same sanitizer options as vlib.base_env, with a smaller free-list quarantine: the cases are tiny, and a
# 256 MB quarantine makes every shard fault in fresh pages all the time (30% of the run time)
_ASAN = ("detect_leaks=1:abort_on_error=0:detect_stack_use_after_return=0:handle_segv=1:allocator_may_return_null=1:"
         "symbolize=1:quarantine_size_mb=32")

REGISTRY["C11"] = rc_property(
    "C11", quick=(400, 60), thorough=(16000, 100),
    rule="case = forest of 1-4 dtype trees (depth <= 4, width <= 5; builtins passed as the global object or as a reference "
         "copy, custom(name,bytes) incl. names that collide with builtins, tuples, addField(..., tupleSize), structs, unions, "
         "enums, named copies, registered and unregistered nodes, sub-trees shared between trees) encoded as a pre-order op "
         "list, plus cast pairs, one kernel-metadata record and a mode (JSON value or dumped text, indent, explicit name). "
         "Each tree is built through the construction API, round-tripped twice, and compared node by node with the model "
         "(kind, leaf names, field names in order, enumerators, tuple size, element types) and with bytes() of the same node "
         "of the original; matches() is compared with an independent second construction; canBeCastedTo is compared on "
         "a->b, rt(a)->rt(b), a->rt(b), rt(a)->b. LeakSanitizer runs after every case. "
         "Non-trivial = some tree has a non-builtin root (custom, tuple, struct, union, enum). Distinct = distinct serialised case.",
    extra_env={"ASAN_OPTIONS": _ASAN},
    assumptions=[
        "type names of composite dtypes are not required to survive toJson(d) without the explicit name argument "
        "(tests/src/dtype.cpp pins the JSON of a named struct without a name key); they are checked with toJson(d, d.name())",
        "names are identifiers (field, enumerator, argument names) or [A-Za-z0-9_: ] (type names): JSON string escaping is C24's",
        "dtype::none and tuples of unknown size (-1) are not generated (canBeCastedTo divides by zero on an empty flattening)",
        "the registered flag is not part of the compared value (a reconstruction is never registered)",
    ])

m("C11", "exploration",
  "Property-based round-trip test: generated dtype trees (all kinds, nested, registered or not, sharing sub-objects) and "
  "kernel argument metadata built from them are serialised with toJson and read back with fromJson, through a JSON value "
  "and through dumped text; the reconstruction is compared node by node with an independent model of the tree and with "
  "the byte size of the original, the library's matches() is compared with an independent second construction, and "
  "canBeCastedTo is compared before/after on generated pairs including the mixed original/reconstructed pairs a kernel "
  "launch uses. Sampled search with shrinking; it cannot show absence of defects beyond the explored trees.",
  "Trusted: the 150-line model/reader in harness/C11.cpp, rapidcheck, ASan/UBSan/LSan. The harness reads dtype_t's private "
  "members for tuples (the public isTuple()/tupleSize() are declared but not defined). Known finding: leaves that are not "
  "builtins are compared by address, so cast compatibility through a shared custom/enum leaf cannot survive a round trip.",
  "property-based testing (rapidcheck): generated recursive values, round-trip oracle against an independent model, "
  "differential before/after oracle for cast compatibility",
  "rapidcheck", "DESIGN.md §4 C11")
